//! Cut-point enumeration: crash or failing write at every storage and
//! file-system mutation of an operation (C08, C09 parts 2-3, C11 cut points).
//!
//! One evaluation is one (operation, reached state) pair:
//!
//! 1. a seeded prefix history brings the instance (disk back-end) into some
//!    state; background work is pumped; the instance is stopped and its
//!    directory snapshotted together with the simulator state;
//! 2. the counting run restores the snapshot, restarts the instance,
//!    executes the target operation plus the background work it triggers
//!    with the hooks counting mutations (n), then applies the recovery
//!    procedure - it is the fault-free twin;
//! 3. for every cut point k <= n (all, or a seeded sample) and both fault
//!    variants (process crash before mutation k; mutation k fails with an
//!    I/O error) the snapshot is restored again and the same steps are run
//!    with the fault armed. Every run starts from byte-identical storage,
//!    cold caches, the same clock, entropy and key-pool positions, so k
//!    names the same mutation in all of them.

use std::collections::{BTreeMap, BTreeSet};
use std::path::{Path, PathBuf};
use serde_json::{json, Value};
use crate::history::{Oracles, Runner, Violation};
use crate::hooks::{self, FaultMode, FaultPlan, FaultScope};
use crate::model::Model;
use crate::ops::{GenCfg, Op};
use crate::rng::Rng;
use crate::runs::{RunReport, START_SECS};
use crate::seams;
use crate::sim::World;
use crate::util::block_on;
use crate::world::{self, guarded, Guarded, InstCfg};

#[derive(Clone)]
pub struct CutProfile {
    pub name: &'static str,
    pub prefix_min: usize,
    pub prefix_max: usize,
    pub max_cuts: usize,
    /// Only file-system mutations are cut (C11).
    pub fs_only: bool,
    pub gen_cfg: GenCfg,
    pub torn_writes: bool,
    /// C09: crash cuts only, recovery is restart and pump (the request is
    /// not submitted again), the oracle is `c09::followups_done`.
    pub c09_mode: bool,
}

#[derive(Clone)]
struct SimSnapshot {
    now_ns: i64,
    key_cursor: usize,
    oneoff_cursor: usize,
    model: Model,
    deleted: BTreeSet<String>,
    detach_events: u64,
    entitlement_events: u64,
    cfg: InstCfg,
    sim_secs: i64,
    /// CAs with unsent requests at the end of the prefix.
    open_requests: BTreeSet<String>,
    /// Seconds the clock jumps at the start of the unit, so that the
    /// recurring maintenance tasks (snapshots, re-publication, renewal)
    /// fall due inside it.
    advance_in_unit: i64,
}

struct PhaseResult {
    violations: Vec<Violation>,
    sites: Vec<String>,
    counter: u64,
    norm: Option<Value>,
    fired_at: Option<String>,
    stats: BTreeMap<String, u64>,
    harness_error: Option<String>,
    kv: u64,
    fs: u64,
    result_of_op: String,
    open_requests: BTreeSet<String>,
    /// The second crash fell between a CA's object set being written and
    /// the command that caused it being stored.
    second_in_window: bool,
}

fn in_fresh_thread<T: Send + 'static>(
    f: impl FnOnce() -> T + Send + 'static
) -> Result<T, String> {
    std::thread::Builder::new()
        .stack_size(32 * 1024 * 1024)
        .spawn(f).expect("spawn phase thread")
        .join().map_err(|p| crate::util::panic_message(&p))
}

fn restore_dir(snap: &Path, live: &Path) -> Result<(), String> {
    let _ = std::fs::remove_dir_all(live);
    crate::util::copy_dir(snap, live).map_err(|e| format!("restore: {e}"))
}

/// Starts a phase: fresh simulator state from the snapshot, instance started
/// from the restored directory.
fn begin_phase(
    seed: u64, base: &Path, snap: &SimSnapshot, oracles: Oracles,
) -> Result<Runner, String> {
    hooks::state().reset_for_run(base, true);
    {
        let mut st = hooks::state();
        st.key_cursor = snap.key_cursor;
        st.oneoff_cursor = snap.oneoff_cursor;
    }
    // The process that continues from the snapshot must not draw the
    // "random" values (nonces, UUIDs) again that the prefix drew.
    seams::set_seed(seed ^ 0x5bd1_e995_9e37_79b9);
    seams::set_thread_stream(0);
    seams::set_thread_skew_secs(0);
    seams::enable(true);
    let mut w = World::new(base, START_SECS);
    seams::set_now_secs(0);
    seams::advance_ns(snap.now_ns);
    w.sim_secs = snap.sim_secs;
    w.add_instance(snap.cfg.clone());
    let mut runner = Runner::new(
        w, Rng::new(seed).fork("phase"), GenCfg::default(), oracles
    );
    runner.model = snap.model.clone();
    runner.ext.deleted_cas = snap.deleted.clone();
    runner.ext.detach_events = snap.detach_events;
    runner.ext.entitlement_events = snap.entitlement_events;
    match guarded(|| runner.world.insts[0].start()) {
        Guarded::Ok(Ok(())) => Ok(runner),
        Guarded::Ok(Err(err)) => Err(format!("start from snapshot: {err}")),
        other => Err(format!("start from snapshot: {other:?}")),
    }
}

/// The recovery procedure, applied identically to the faulted run and its
/// twin: pump, re-submit the interrupted request, refresh all, pump (twice).
fn recover(r: &mut Runner, op: &Op) {
    r.dead = None;
    let res = r.exec_pump();
    hooks::log(format!("recover pump1 {res}"));
    if r.dead.is_some() { return }
    let _ = r.views();
    r.resuming = true;
    let res = r.exec(op);
    r.resuming = false;
    hooks::log(format!("recover resubmit {res}"));
    if r.dead.is_some() { return }
    for _ in 0..2 {
        for idx in 0..r.world.insts.len() {
            if r.world.inst(idx).is_up() {
                r.world.inst(idx).enter();
                let _ = block_on(r.world.inst(idx).mgr().cas_refresh_all());
                let _ = block_on(r.world.inst(idx).mgr().cas_repo_sync_all());
            }
        }
        let res = r.exec_pump();
        hooks::log(format!("recover pump {res}"));
        if r.dead.is_some() { return }
    }
    // The recurring maintenance (re-publication of due manifests and CRLs,
    // renewal) retries on its own schedule: let its next round pass.
    r.world.advance(1200);
    let res = r.exec_pump();
    hooks::log(format!("recover maintenance pump {res}"));
}

/// The observable state with key identifiers, serial numbers, class names,
/// object names derived from keys, numbers and all timestamps abstracted.
pub fn norm_state(r: &Runner) -> Value {
    hooks::with_faults_suspended(|| {
        let mut cas = BTreeMap::new();
        let inst = r.world.inst(0);
        let rt = inst.rt();
        let mut handles = rt.ca_manager().ca_handles().unwrap_or_default();
        handles.sort_by_key(|h| h.to_string());
        for handle in handles {
            let Ok(ca) = rt.ca_manager().get_ca(&handle) else { continue };
            let name = handle.to_string();
            let mut classes: Vec<String> = r.class_infos(0, &name).iter()
                .map(|c| {
                    let res = r.held_certs(0, &name);
                    let _ = res;
                    format!("{}:{}", c.parent, c.state)
                }).collect();
            classes.sort();
            let mut rcns: Vec<String> = r.class_infos(0, &name).iter()
                .map(|c| format!("{}:{}", c.parent, c.rcn)).collect();
            rcns.sort();
            // A CA that no longer hangs off the trust anchor (removed at
            // its parent, parent deleted) keeps whatever certificate it
            // held when it last synchronised: which one that is depends
            // on when background work ran relative to the removal, not on
            // the fault. Its resources, key states and object counts are
            // not compared.
            let orphaned = name != "testbed" && !r.is_live(0, &name, 0);
            if orphaned {
                classes = vec!["orphaned".into()];
            }
            let held = if orphaned { "-".to_string() } else {
                r.held_set(0, &name).map(|s| {
                    crate::model::Res::from_set(&s).to_string()
                }).unwrap_or_default()
            };
            let mut roas: Vec<String> = ca.configured_roas().iter().map(|c| {
                if orphaned {
                    return c.roa_configuration.to_string()
                }
                format!(
                    "{} objects:{}", c.roa_configuration,
                    c.roa_objects.len()
                )
            }).collect();
            roas.sort();
            let mut aspas: Vec<String> = ca.aspas_definitions_show()
                .as_slice().iter().map(|d| d.to_string()).collect();
            aspas.sort();
            let mut bgpsec: Vec<String> = ca.bgpsec_definitions_show()
                .as_slice().iter().map(|d| {
                    format!("{}:{}", d.asn, d.key_identifier)
                }).collect();
            bgpsec.sort();
            let info = ca.as_ca_info();
            let mut children: Vec<String> = info.children.iter().map(|c| {
                let detail = ca.get_child(c).map(|d| {
                    let i = d.to_info();
                    format!("{}:{:?}", i.entitled_resources, i.state)
                }).unwrap_or_default();
                format!("{c}={detail}")
            }).collect();
            children.sort();
            let mut parents: Vec<String> = info.parents.iter()
                .map(|p| p.handle.to_string()).collect();
            parents.sort();
            cas.insert(name, json!({
                "classes": classes,
                "_rcns": rcns,
                "held": held,
                "roas": roas,
                "aspas": aspas,
                "bgpsec": bgpsec,
                "children": children,
                "parents": parents,
            }));
        }
        let excluded = r.excluded_dirs(0);
        let rp = r.world.rp_walk(0, &excluded).ok();
        let (vrps, aspas, router_keys, issues, shapes) = match &rp {
            Some(rp) => {
                let mut shapes: BTreeMap<String, (usize, usize, usize)>
                    = BTreeMap::new();
                for pp in &rp.pub_points {
                    // Directory without the class component.
                    let dir = pp.repo_dir.clone();
                    let ca_dir = dir.trim_end_matches('/')
                        .rsplit_once('/').map(|x| x.0.to_string())
                        .unwrap_or(dir);
                    let e = shapes.entry(ca_dir).or_insert((0, 0, 0));
                    for p in &pp.products {
                        if p.ends_with(".roa") { e.0 += 1 }
                        else if p.ends_with(".asa") { e.1 += 1 }
                        else if p.ends_with(".cer") { e.2 += 1 }
                    }
                }
                (
                    rp.vrps.iter().map(|v| v.to_string()).collect::<Vec<_>>(),
                    rp.aspas.iter().map(|a| format!("{a:?}")).collect::<Vec<_>>(),
                    rp.router_keys.iter().map(|k| format!("{k:?}"))
                        .collect::<Vec<_>>(),
                    {
                        // Key identifiers (fresh after a repeated key
                        // roll) are not compared.
                        let mut issues: Vec<String> = rp.issues.iter()
                            .map(|i| mask_class_dirs(&mask_key_ids(i)))
                            .collect();
                        issues.sort();
                        issues
                    },
                    shapes,
                )
            }
            None => Default::default()
        };
        let mut publishers: Vec<String> = rt.repo_manager().publishers()
            .unwrap_or_default().iter().map(|p| p.to_string()).collect();
        publishers.sort();
        json!({
            "cas": cas,
            "vrps": vrps,
            "aspas": aspas,
            "router_keys": router_keys,
            "rp_issues": issues,
            "shapes": shapes.iter().map(|(k, v)| {
                (k.clone(), json!([v.0, v.1, v.2]))
            }).collect::<BTreeMap<_, _>>(),
            "publishers": publishers,
            "served": served_shape(r),
        })
    })
}

/// What the repository content log holds per publisher (the statistics
/// view, `GET stats/repo`): whether a publisher has content at all.
/// Content that stays behind for a publisher that is gone from the access
/// records shows here and in no other API view.
fn served_shape(r: &Runner) -> Value {
    let rt = r.world.inst(0).rt();
    let Ok(stats) = rt.repo_manager().repo_stats() else {
        return Value::Null
    };
    // Only publishers that hold objects: an entry without objects exists
    // or not depending on whether the publisher was added to the content
    // log before a cut (the content log treats both alike).
    let mut holding: Vec<String> = stats.publishers.iter()
        .filter(|(_, stats)| stats.objects > 0)
        .map(|(publisher, _)| publisher.to_string()).collect();
    holding.sort();
    json!(holding)
}

/// Checks right after a cut (and the restart, if it was a crash).
fn post_cut_checks(
    r: &mut Runner, what: &str, pre_repo: &Option<(String, u64)>,
) {
    // (0) the repository content log did not go back: what publishers
    // were told was accepted before the unit is still there.
    if let Some((session, serial)) = pre_repo {
        let now = hooks::with_faults_suspended(|| {
            r.world.inst(0).rt().repo_manager().repo_stats().ok()
                .map(|s| (s.session.to_string(), s.serial))
        });
        match now {
            Some((s, n)) if &s == session && n < *serial => r.violation(
                "C08", "repository_content_lost",
                format!(
                    "{what}: the repository was at RRDP serial {serial} \
                     before the interrupted work and is at serial {n} after \
                     the restart: acknowledged publications are gone"
                )
            ),
            Some((s, _)) if &s != session => r.violation(
                "C08", "repository_session_changed",
                format!(
                    "{what}: the RRDP session changed from {session} to {s} \
                     without a reset"
                )
            ),
            _ => { }
        }
    }
    // (1) every entity loads.
    let loads = guarded(|| hooks::with_faults_suspended(|| {
        let rt = r.world.inst(0).rt();
        let mut problems = Vec::new();
        let handles = rt.ca_manager().ca_handles().map_err(|e| e.to_string())?;
        for handle in &handles {
            if let Err(err) = rt.ca_manager().get_ca(handle) {
                problems.push(format!("CA {handle} does not load: {err}"));
            }
        }
        if rt.config().ta_proxy_enabled() {
            // testbed mode always has a TA.
            if let Err(err) = rt.ca_manager().get_trust_anchor_proxy() {
                problems.push(format!("TA proxy does not load: {err}"));
            }
        }
        if let Err(err) = rt.repo_manager().repo_stats() {
            problems.push(format!("repository content does not load: {err}"));
        }
        if let Err(err) = rt.repo_manager().publishers() {
            problems.push(format!("repository access does not load: {err}"));
        }
        // A second store on the same bytes must load everything as well.
        let store = krill::commons::eventsourcing::AggregateStore::<
            krill::server::ca::CertAuth
        >::create(rt.storage(), krill::constants::CASERVER_NS, false)
            .map_err(|e| e.to_string())?;
        for handle in store.list().map_err(|e| e.to_string())? {
            if let Err(err) = store.get_latest(&handle) {
                problems.push(format!(
                    "CA {handle} does not load in a fresh store: {err}"
                ));
            }
        }
        Ok::<_, String>(problems)
    }));
    match loads {
        Guarded::Ok(Ok(problems)) => {
            for p in problems {
                r.violation("C08", "entity_does_not_load", format!("{what}: {p}"));
            }
        }
        Guarded::Ok(Err(err)) => {
            r.violation("C08", "entity_does_not_load", format!("{what}: {err}"));
        }
        other => {
            r.violation(
                "C08", "entity_load_panics", format!("{what}: {other:?}")
            );
        }
    }

    // (2) audit log, loaded state and object set agree.
    let cas: Vec<String> = hooks::with_faults_suspended(|| {
        r.world.inst(0).rt().ca_manager().ca_handles().unwrap_or_default()
            .iter().map(|h| h.to_string()).collect()
    });
    for name in cas {
        let (version, total) = hooks::with_faults_suspended(|| {
            use krill::commons::eventsourcing::Aggregate;
            let rt = r.world.inst(0).rt();
            let version = rt.ca_manager().get_ca(&crate::sim::handle(&name))
                .map(|ca| ca.version()).unwrap_or(0);
            (version, r.audit_tail(0, &name).0 as u64)
        });
        // Version n means commands 0..n-1 are stored; the history API lists
        // commands 1..n-1.
        if version != total + 1 {
            r.violation(
                "C08", "audit_log_gap",
                format!(
                    "{what}: CA {name} is at version {version} but the \
                     history lists {total} commands"
                )
            );
        }
        let infos = r.class_infos(0, &name);
        let sets = hooks::with_faults_suspended(|| {
            crate::objsets::read(r.world.inst(0).rt(), &name)
        });
        for info in &infos {
            let expect = match info.state.as_str() {
                "roll_new" => "staging",
                "roll_old" => "old",
                "active" | "roll_pending" => "current",
                _ => continue,
            };
            match sets.iter().find(|s| s.rcn == info.rcn) {
                Some(set) => {
                    if set.state != expect {
                        r.violation(
                            "C08", "object_set_diverged",
                            format!(
                                "{what}: CA {name} class {}: key state {} \
                                 but object sets are in state {}",
                                info.rcn, info.state, set.state
                            )
                        );
                    }
                    else if let Some(active) = &info.active_key {
                        let cur = set.sets.iter()
                            .find(|s| s.role == "current_set");
                        if let Some(cur) = cur {
                            if &cur.key_id != active {
                                r.violation(
                                    "C08", "object_set_diverged",
                                    format!(
                                        "{what}: CA {name} class {}: active \
                                         key {active} but the current object \
                                         set belongs to key {}",
                                        info.rcn, cur.key_id
                                    )
                                );
                            }
                        }
                    }
                }
                None => {
                    r.violation(
                        "C08", "object_set_diverged",
                        format!(
                            "{what}: CA {name} class {} ({}) has no object \
                             set", info.rcn, info.state
                        )
                    );
                }
            }
        }
        for set in &sets {
            if !infos.iter().any(|i| i.rcn == set.rcn) {
                r.violation(
                    "C08", "object_set_diverged",
                    format!(
                        "{what}: CA {name} has an object set for class {} \
                         which the CA does not have", set.rcn
                    )
                );
            }
        }
        // ROA objects the CA reports are the ROA objects in its set.
        let reported: BTreeSet<String> = hooks::with_faults_suspended(|| {
            r.world.inst(0).rt().ca_manager()
                .get_ca(&crate::sim::handle(&name)).map(|ca| {
                    ca.configured_roas().iter().flat_map(|c| {
                        c.roa_objects.iter().map(|o| o.uri.to_string())
                            .collect::<Vec<_>>()
                    }).collect()
                }).unwrap_or_default()
        });
        let stored: BTreeSet<String> = sets.iter().flat_map(|class| {
            class.sets.iter().filter(|s| s.role == "current_set")
                .flat_map(|s| s.products.keys().cloned())
        }).filter(|n| n.ends_with(".roa")).collect();
        let reported_names: BTreeSet<String> = reported.iter().map(|u| {
            u.rsplit('/').next().unwrap_or("").to_string()
        }).collect();
        if reported_names != stored {
            r.violation(
                "C08", "object_set_diverged",
                format!(
                    "{what}: CA {name}: ROA objects according to the CA \
                     {reported_names:?}, in its stored object set {stored:?}"
                )
            );
        }
    }

    // (3) the tree as published right now is still valid.
    let excluded = r.excluded_dirs(0);
    if let Ok(rp) = r.world.rp_walk(0, &excluded) {
        for issue in rp.issues {
            // A child's objects may overclaim while its parent has
            // already published a smaller certificate and the child has
            // not yet caught up: that window exists without any fault.
            if issue.contains("overclaiming") {
                continue
            }
            // Likewise objects of a key whose certificate the parent
            // has already withdrawn or revoked ("present but unlisted",
            // "revoked") while the CA itself has not yet synchronised.
            // What a cut must never produce is an object that does not
            // decode, a manifest whose entries are missing or have
            // another hash, or a broken signature.
            let bad = issue.contains("invalid")
                || issue.contains("does not decode")
                || issue.starts_with("listed but missing")
                || issue.contains("hash differs")
                || issue.contains("bad signature");
            let expiry = issue.contains("expired") || issue.contains("stale");
            if bad && !expiry {
                r.violation(
                    "C08", "published_tree_invalid",
                    format!("{what}: {issue}")
                );
            }
        }
    }
}

/// C11 after a cut in the file writes of the publication server.
fn c11_after_cut(
    r: &mut Runner, what: &str, is_twin: bool,
    pre_view: &Option<crate::served::RrdpView>,
) {
    use crate::served;
    let (repo_dir, base_uri, jail, cfg) = {
        let inst = r.world.inst(0);
        (
            inst.repo_dir(), inst.cfg.rrdp_base_uri(), inst.cfg.rsync_jail(),
            inst.cfg.rrdp.clone()
        )
    };
    let mut mem = served::ClientMemory::default();
    if let Some(view) = pre_view {
        let _ = mem.observe(
            view, false, usize::MAX, cfg.min_nr, cfg.min_seconds as i64,
            seams::now_secs()
        );
    }
    // (1) At the instant after the cut the notification file names files
    // that exist with the stated hashes, and clients of the earlier
    // serial can follow.
    match served::fetch_rrdp(&repo_dir, &base_uri) {
        Ok((view, problems)) => {
            for p in problems {
                r.violation(
                    "C11", "rrdp_files_inconsistent_after_cut",
                    format!("{what}: {p}")
                );
            }
            for p in mem.observe(
                &view, false, usize::MAX, cfg.min_nr,
                cfg.min_seconds as i64, seams::now_secs()
            ) {
                r.violation(
                    "C11", "rrdp_client_after_cut", format!("{what}: {p}")
                );
            }
        }
        Err(err) => {
            r.violation(
                "C11", "notification_unusable_after_cut",
                format!("{what}: {err}")
            );
        }
    }
    if is_twin {
        // The twin goes through a restart as well.
        r.world.insts[0].stop();
        if !matches!(
            guarded(|| r.world.insts[0].start()), Guarded::Ok(Ok(()))
        ) {
            r.violation(
                "C11", "restart_fails", format!("{what}: twin restart")
            );
            return
        }
    }
    // In half of the cases another publication arrives before the
    // failed write is retried (the task retries it an hour later), so that
    // the files on disk are more than one serial behind the content when
    // the next write takes place.
    let early_publication = Rng::new(
        r.world.sim_secs as u64 ^ 0x5eed_c11
    ).fork(what).chance(1, 2);
    if early_publication && !is_twin {
        r.stat("c11.publication_before_retry");
        {
            // Either everything is re-issued (updates only), or an object
            // that the interrupted write may already have put into its
            // working directory is withdrawn: one configured ROA goes.
            let withdraw = Rng::new(
                r.world.sim_secs as u64 ^ 0x77d_c11
            ).fork(what).chance(1, 2);
            let inst = r.world.inst(0);
            inst.enter();
            let mut withdrawn = false;
            if withdraw {
                let names: Vec<String> = r.model.cas.values()
                    .filter(|c| c.inst == 0).map(|c| c.name.clone()).collect();
                for name in names {
                    let Ok(ca) = inst.rt().ca_manager().get_ca(
                        &crate::sim::handle(&name)
                    ) else { continue };
                    let Some(first) = ca.configured_roas().first()
                        .map(|c| c.roa_configuration.payload)
                    else { continue };
                    let updates = krill::api::roa::RoaConfigurationUpdates {
                        added: vec![], removed: vec![first],
                    };
                    if block_on(inst.mgr().ca_routes_update(
                        crate::sim::handle(&name), updates, world::ADMIN
                    )).is_ok() {
                        withdrawn = true;
                        break
                    }
                }
            }
            if withdrawn {
                r.stat("c11.withdrawal_before_retry");
            }
            else {
                let _ = block_on(inst.mgr().republish_all(true));
            }
        }
        let res = r.exec_pump();
        hooks::log(format!("early publication pump {res}"));
        if r.dead.is_some() {
            r.violation(
                "C11", "recovery_dies",
                format!("{what}: publication before the retry ended with {:?}", r.dead)
            );
            return
        }
        match served::fetch_rrdp(&repo_dir, &base_uri) {
            Ok((view, problems)) => {
                for p in problems {
                    r.violation(
                        "C11", "rrdp_files_inconsistent",
                        format!("{what} after a publication before the retry: {p}")
                    );
                }
                for p in mem.observe(
                    &view, false, usize::MAX, cfg.min_nr,
                    cfg.min_seconds as i64, seams::now_secs()
                ) {
                    r.violation(
                        "C11", "rrdp_client",
                        format!("{what} after a publication before the retry: {p}")
                    );
                }
            }
            Err(err) => r.violation(
                "C11", "notification_unusable",
                format!("{what} after a publication before the retry: {err}")
            ),
        }
    }
    // (2) Background work completes the interrupted write. A failed
    // write is retried by the task an hour later.
    for round in 0..3 {
        let res = r.exec_pump();
        hooks::log(format!("recover pump {res}"));
        if r.dead.is_some() {
            r.violation(
                "C11", "recovery_dies",
                format!("{what}: pumping ended with {:?}", r.dead)
            );
            return
        }
        if round == 0 {
            r.world.advance(3700);
        }
    }
    let compare = |r: &mut Runner, mem: &mut served::ClientMemory, stage: &str| {
        let Some(content) = crate::c11::content(r) else { return None };
        let mut serial = None;
        match served::fetch_rrdp(&repo_dir, &base_uri) {
            Ok((view, problems)) => {
                serial = Some((view.session.clone(), view.serial));
                for p in problems {
                    r.violation(
                        "C11", "rrdp_files_inconsistent",
                        format!("{what} {stage}: {p}")
                    );
                }
                for p in mem.observe(
                    &view, false, usize::MAX, cfg.min_nr,
                    cfg.min_seconds as i64, seams::now_secs()
                ) {
                    r.violation(
                        "C11", "rrdp_client", format!("{what} {stage}: {p}")
                    );
                }
                if let Some(d) = served::diff(
                    "the repository content", &content,
                    "the RRDP snapshot", &view.snapshot
                ) {
                    r.violation(
                        "C11", "rrdp_write_not_completed",
                        format!("{what} {stage}: {d}")
                    );
                }
            }
            Err(err) => r.violation(
                "C11", "notification_unusable", format!("{what} {stage}: {err}")
            ),
        }
        match served::fetch_rsync(&repo_dir, &jail) {
            Ok(tree) => {
                if let Some(d) = served::diff(
                    "the repository content", &content, "the rsync tree", &tree
                ) {
                    r.violation(
                        "C11", "rsync_write_not_completed",
                        format!("{what} {stage}: {d}")
                    );
                }
            }
            Err(err) => r.violation(
                "C11", "rsync_unreadable", format!("{what} {stage}: {err}")
            ),
        }
        serial
    };
    let before = compare(r, &mut mem, "after recovery");
    // (3) A later publication is written.
    {
        let inst = r.world.inst(0);
        inst.enter();
        let _ = block_on(inst.mgr().republish_all(true));
    }
    for _ in 0..2 {
        let res = r.exec_pump();
        hooks::log(format!("later pump {res}"));
        if r.dead.is_some() {
            r.violation(
                "C11", "recovery_dies",
                format!("{what}: later publication ended with {:?}", r.dead)
            );
            return
        }
    }
    let after = compare(r, &mut mem, "after a later publication");
    if let (Some(before), Some(after)) = (before, after) {
        if before == after {
            r.violation(
                "C11", "later_write_prevented",
                format!(
                    "{what}: a forced re-publication of all CAs did not \
                     produce a new serial (still {}/{})", after.0, after.1
                )
            );
        }
    }
}

/// After a restart: no task may be left in the running state and the
/// recurring tasks must be queued again (C09).
fn check_restart_queue(r: &mut Runner, what: &str) {
    let running = r.world.inst(0).running_tasks();
    if !running.is_empty() {
        r.violation(
            "C09", "running_task_not_requeued",
            format!(
                "{what}: after restart and a full pump tasks are still in \
                 the running state and will never run again: {:?}",
                running.iter().map(|t| t.1.clone()).collect::<Vec<_>>()
            )
        );
    }
    let pending: BTreeSet<String> = r.world.inst(0).pending_tasks()
        .into_iter().map(|t| t.1).collect();
    let mut expected = vec![
        "all_cas_republish_if_needed".to_string(),
        "all_cas_renew_objects_if_needed".to_string(),
        "update_stored_snapshots".to_string(),
    ];
    if r.world.inst(0).cfg.testbed {
        expected.push("renew_testbed_ta".to_string());
    }
    let cas: Vec<(String, Vec<String>)> = hooks::with_faults_suspended(|| {
        let rt = r.world.inst(0).rt();
        rt.ca_manager().ca_handles().unwrap_or_default().iter().map(|h| {
            let parents = rt.ca_manager().get_ca(h).map(|ca| {
                ca.parents().map(|p| p.to_string()).collect()
            }).unwrap_or_default();
            (h.to_string(), parents)
        }).collect()
    });
    for (ca, parents) in cas {
        for parent in parents {
            expected.push(format!("sync_{ca}_with_parent_{parent}"));
        }
    }
    for name in expected {
        if !pending.contains(&name) {
            r.violation(
                "C09", "recurring_task_missing",
                format!(
                    "{what}: recurring task {name} is not queued after \
                     restart and pump (pending: {pending:?})"
                )
            );
        }
    }
}

fn finish_phase(r: &mut Runner) -> (Vec<Violation>, BTreeMap<String, u64>, u64, u64) {
    let (kv, fs) = {
        let st = hooks::state();
        (st.kv_mutations, st.fs_mutations)
    };
    for inst in r.world.insts.iter_mut() {
        inst.stop();
    }
    seams::enable(false);
    (r.violations.clone(), r.stats.clone(), kv, fs)
}

/// Executes the unit under cut: the operation and the background work it
/// triggers.
fn exec_unit(r: &mut Runner, op: &Op) -> String {
    let _ = r.views();
    let res = r.exec(op);
    if r.dead.is_none() {
        let _ = r.views();
        r.exec(&Op::Pump);
    }
    res
}

pub fn run_pair(seed: u64, profile: &CutProfile) -> RunReport {
    run_pair_only(seed, profile, None)
}

/// Like `run_pair`; with `only`, just that cut point and variant are
/// executed (replay of one violation).
pub fn run_pair_only(
    seed: u64, profile: &CutProfile, only: Option<(u64, String)>,
) -> RunReport {
    let t0 = std::time::Instant::now();
    let base = world::make_run_dir(seed, profile.name);
    let snap_dir = base.join("snapshot");
    let live_dir = base.join("a");
    let mut report = RunReport {
        profile: profile.name.to_string(),
        seed,
        ..Default::default()
    };

    // Phase A: prefix.
    let p = profile.clone();
    let base_a = base.clone();
    let snap_dir_a = snap_dir.clone();
    let live_dir_a = live_dir.clone();
    let prefix = in_fresh_thread(move || -> Result<
        (SimSnapshot, Op, Vec<Op>, String), String
    > {
        hooks::state().reset_for_run(&base_a, true);
        seams::set_seed(seed);
        seams::set_thread_stream(0);
        seams::set_thread_skew_secs(0);
        seams::enable(true);
        let root = Rng::new(seed);
        let mut cfg_rng = root.fork("config");
        let mut cfg = world::draw_inst_cfg("a", &mut cfg_rng, false);
        cfg.disk = true;
        if p.fs_only {
            let mut rrdp_rng = root.fork("rrdp");
            let (min_nr, max_nr, min_seconds, max_seconds, interval)
                = crate::ops::draw_rrdp_retention(&mut rrdp_rng);
            cfg.rrdp.min_nr = min_nr;
            cfg.rrdp.max_nr = max_nr;
            cfg.rrdp.min_seconds = min_seconds;
            cfg.rrdp.max_seconds = max_seconds;
            cfg.rrdp.interval_min_seconds = interval;
            cfg.rrdp.archive = rrdp_rng.chance(1, 4);
        }
        let n_prefix = p.prefix_min
            + cfg_rng.usize(p.prefix_max - p.prefix_min + 1);
        let mut w = World::new(&base_a, START_SECS);
        w.add_instance(cfg.clone());
        let mut runner = Runner::new(
            w, root.fork("ops"), p.gen_cfg.clone(), Oracles::default()
        );
        match guarded(|| runner.world.insts[0].start()) {
            Guarded::Ok(Ok(())) => { }
            other => return Err(format!("prefix start: {other:?}")),
        }
        runner.register_testbed(0);
        runner.exec_pump();
        for _ in 0..n_prefix {
            if runner.dead.is_some() { break }
            let op = runner.next_op();
            if matches!(op, Op::Restart { .. }) { continue }
            runner.exec(&op);
            if runner.dead.is_none() && runner.rng.below(100) < 60 {
                let _ = runner.views();
                runner.exec(&Op::Pump);
            }
        }
        if runner.dead.is_some() {
            return Err(format!("prefix died: {:?}", runner.dead))
        }
        let open_requests;
        if p.c09_mode && runner.rng.chance(1, 2) {
            // Leave the follow-ups of the last operations pending.
            open_requests = None;
        }
        else {
            let _ = runner.views();
            runner.exec(&Op::Pump);
            open_requests = Some(crate::c09::open_request_cas(&runner));
        }
        // The operation to be cut, generated against the reached state.
        let mut target = runner.next_op();
        for _ in 0..20 {
            if !matches!(
                target,
                Op::Pump | Op::Advance { .. } | Op::Restart { .. }
            ) { break }
            target = runner.next_op();
        }
        // One pair in six: the publication server's operator removes the
        // publisher of a CA that has published objects (two entities -
        // the access records and the content log - change in one
        // request).
        if !p.fs_only && runner.rng.chance(1, 6) {
            let names: Vec<String> = runner.model.cas.values()
                .filter(|c| c.name != "testbed" && c.inst == 0)
                .map(|c| c.name.clone()).collect();
            if !names.is_empty() {
                let ca = names[runner.rng.usize(names.len())].clone();
                target = Op::RemovePublisher { inst: 0, ca };
            }
        }
        let (key_cursor, oneoff_cursor) = {
            let st = hooks::state();
            (st.key_cursor, st.oneoff_cursor)
        };
        let snap = SimSnapshot {
            now_ns: seams::now_ns(),
            key_cursor,
            oneoff_cursor,
            model: runner.model.clone(),
            deleted: runner.ext.deleted_cas.clone(),
            detach_events: runner.ext.detach_events,
            entitlement_events: runner.ext.entitlement_events,
            cfg,
            sim_secs: runner.world.sim_secs,
            open_requests: open_requests.unwrap_or_else(|| {
                runner.model.cas.values().map(|c| c.name.clone()).collect()
            }),
            advance_in_unit: 0,
        };
        let mut snap = snap;
        if runner.rng.chance(1, 4) {
            snap.advance_in_unit = 86_400 + runner.rng.below(90_000) as i64;
        }
        let ops = runner.ops_done.clone();
        let config = format!("{:?}", snap.cfg);
        for inst in runner.world.insts.iter_mut() {
            inst.stop();
        }
        seams::enable(false);
        crate::util::copy_dir(&live_dir_a, &snap_dir_a)
            .map_err(|e| format!("snapshot: {e}"))?;
        Ok((snap, target, ops, config))
    });
    let (snap, target, prefix_ops, config) = match prefix {
        Ok(Ok(x)) => x,
        Ok(Err(err)) | Err(err) => {
            report.harness_error = Some(err);
            world::remove_run_dir(&base);
            return report
        }
    };
    report.config = config;
    report.ops = prefix_ops;
    report.ops.push(target.clone());
    report.results = vec![String::new(); report.ops.len()];

    // Phase B: counting run = fault-free twin.
    let twin = {
        let (snap, target, base, snap_dir, live_dir, fs_only) = (
            snap.clone(), target.clone(), base.clone(), snap_dir.clone(),
            live_dir.clone(), profile.fs_only
        );
        // In the twin every CA is in the baseline: it only establishes it.
        let c09_twin = profile.c09_mode.then(|| {
            snap.model.cas.values().map(|c| c.name.clone()).collect()
        });
        in_fresh_thread(move || run_phase(
            seed, &base, &snap_dir, &live_dir, &snap, &target,
            FaultMode::None, fs_only, true, c09_twin, None
        ))
    };
    let twin = match twin {
        Ok(t) => t,
        Err(err) => {
            report.harness_error = Some(format!("twin: {err}"));
            world::remove_run_dir(&base);
            return report
        }
    };
    if let Some(err) = twin.harness_error {
        report.harness_error = Some(format!("twin: {err}"));
        world::remove_run_dir(&base);
        return report
    }
    let n = twin.counter;
    report.stats.insert("pairs".into(), 1);
    if snap.advance_in_unit > 0 {
        report.stats.insert("pairs_with_maintenance_due".into(), 1);
    }
    report.stats.insert(format!("op.{}", target.kind()), 1);
    report.stats.insert("mutations_in_unit".into(), n);
    report.kv_mutations += twin.kv;
    report.fs_mutations += twin.fs;
    // Violations in the twin itself (no fault!) are reported as such.
    for v in twin.violations {
        report.violations.push(Violation {
            rule: format!("twin_{}", v.rule), ..v
        });
    }
    let twin_norm = twin.norm.clone().unwrap_or(Value::Null);
    if std::env::var_os("VERIF_DEBUG").is_some() {
        for (i, site) in twin.sites.iter().enumerate() {
            eprintln!("site {:3} {site}", i + 1);
        }
    }

    // Phase C: the cuts.
    let mut ks: Vec<u64> = (1..=n).collect();
    if ks.len() > profile.max_cuts {
        // Stratified: first one cut point of every site class that occurs
        // in the unit (rare kinds of mutation - a snapshot write, a WAL
        // truncation, a directory rename - would otherwise hardly ever be
        // drawn next to the many task-queue writes), then a seeded sample
        // of the rest.
        let mut rng = Rng::new(seed).fork("cuts");
        rng.shuffle(&mut ks);
        let mut chosen: Vec<u64> = Vec::new();
        let mut seen_classes = BTreeSet::new();
        for k in &ks {
            let site = twin.sites.get((*k - 1) as usize).cloned()
                .unwrap_or_default();
            if seen_classes.insert(classify_site(&site))
                && chosen.len() < profile.max_cuts
            {
                chosen.push(*k);
            }
        }
        for k in &ks {
            if chosen.len() >= profile.max_cuts { break }
            if !chosen.contains(k) {
                chosen.push(*k);
            }
        }
        ks = chosen;
        ks.sort();
    }
    else {
        report.stats.insert("pairs_fully_enumerated".into(), 1);
    }
    let mut sites_seen = BTreeSet::new();
    let mut variants = vec!["crash", "fail"];
    if profile.torn_writes {
        variants.push("torn");
    }
    if !profile.c09_mode && !profile.fs_only {
        // A full disk: every creating write fails for a while.
        variants.push("full");
    }
    if profile.c09_mode {
        // A crash, and a single failing write with the instance
        // staying up (no restart heals what the failure lost).
        variants = vec!["crash", "fail"];
    }
    // A crash followed by a second crash during start-up or during the
    // background work right after it.
    variants.push("crash2");
    let c09_baseline: Option<BTreeSet<String>> = profile.c09_mode.then(|| {
        snap.open_requests.union(&twin.open_requests).cloned().collect()
    });
    if let Some((k, _)) = &only {
        ks = vec![*k];
    }
    for k in ks {
        let site = twin.sites.get((k - 1) as usize).cloned()
            .unwrap_or_default();
        for variant in &variants {
            if let Some((_, v)) = &only {
                if v != variant { continue }
            }
            let mut second = None;
            let mode = match *variant {
                "crash" => FaultMode::CrashAt(k),
                "crash2" => {
                    // At half of the cut points; a function of seed
                    // and k only, so that a replay of one cut point
                    // makes the same choice.
                    let mut second_rng = Rng::new(seed)
                        .fork(&format!("second-crash-{k}"));
                    // Half of them early (the start-up path itself
                    // makes only a handful of mutations).
                    let j = if second_rng.chance(1, 2) {
                        1 + second_rng.below(5)
                    }
                    else {
                        1 + second_rng.below(
                            if profile.fs_only { 12 } else { 40 }
                        )
                    };
                    if second_rng.chance(1, 2) { continue }
                    second = Some(j);
                    FaultMode::CrashAt(k)
                }
                "fail" => FaultMode::FailAt(k),
                "full" => {
                    // Only at a sample of the cut points, and only where
                    // the window starts with a creating write.
                    let creating = site.contains(":store:")
                        || site.contains(":write:")
                        || site.contains(":create_file:")
                        || site.contains("rsync_create_tmp");
                    if !creating || k % 3 != 0 { continue }
                    FaultMode::FullWindow(k, 2 + (k % 7))
                }
                _ => {
                    if !site.contains(":write:") { continue }
                    FaultMode::TornAt(k, 100)
                }
            };
            let (snap2, target2, base2, snap_dir2, live_dir2, fs_only) = (
                snap.clone(), target.clone(), base.clone(), snap_dir.clone(),
                live_dir.clone(), profile.fs_only
            );
            let mode2 = mode.clone();
            let c09 = c09_baseline.clone();
            let res = in_fresh_thread(move || run_phase(
                seed, &base2, &snap_dir2, &live_dir2, &snap2, &target2,
                mode2, fs_only, false, c09, second
            ));
            let res = match res {
                Ok(res) => res,
                Err(err) => {
                    report.harness_error = Some(format!("cut {k}: {err}"));
                    world::remove_run_dir(&base);
                    return report
                }
            };
            if let Some(err) = res.harness_error {
                report.harness_error = Some(format!("cut {k} {variant}: {err}"));
                world::remove_run_dir(&base);
                return report
            }
            *report.stats.entry(format!("cuts.{variant}")).or_insert(0) += 1;
            *report.fired.entry(variant.to_string()).or_insert(0) += 1;
            report.kv_mutations += res.kv;
            report.fs_mutations += res.fs;
            for (name, n) in res.stats.iter() {
                if name.starts_with("second_crash.")
                    || name.starts_with("c11.")
                {
                    *report.stats.entry(name.clone()).or_insert(0) += n;
                }
            }
            let site_class = classify_site(&site);
            sites_seen.insert(format!("{}|{}|{}", target.kind(), site_class, variant));
            match &res.fired_at {
                Some(at) => {
                    if at != &site && !matches!(mode, FaultMode::TornAt(..)) {
                        report.harness_error = Some(format!(
                            "cut {k} {variant}: fired at '{at}' but the \
                             counting run had '{site}' there"
                        ));
                        world::remove_run_dir(&base);
                        return report
                    }
                }
                None => {
                    // The faulted run took another path before reaching k
                    // (cannot happen before the fault fires).
                    *report.stats.entry("cuts.not_reached".into())
                        .or_insert(0) += 1;
                    continue
                }
            }
            let in_window = in_presave_window(&twin.sites, k as usize)
                || res.second_in_window;
            for mut v in res.violations {
                if v.rule == "repo_sync_not_done_uncommitted" {
                    if in_window {
                        // The uncommitted change that is visible in the
                        // stored object set: reported under C08.
                        *report.stats.entry("c09.uncommitted_ahead".into())
                            .or_insert(0) += 1;
                        continue
                    }
                    v.rule = "repo_sync_not_done".to_string();
                }
                if *variant == "fail"
                    && site.contains(":store:pending:")
                    && site.contains("update_rrdp_if_needed")
                    && (v.rule == "rrdp_update_not_done"
                        || v.rule == "rsync_update_not_done")
                {
                    // The publication was stored, queueing the RRDP
                    // update failed: the known finding of that name.
                    v.rule = "rrdp_update_not_queued".to_string();
                }
                if profile.c09_mode && in_window {
                    // Consequence of the stored object set being ahead
                    // of the CA (see C08).
                    v.rule = "object_set_ahead_of_command".to_string();
                }
                if v.rule == "object_set_diverged" && in_window {
                    v.rule = "object_set_ahead_of_command".to_string();
                }
                v.detail = format!(
                    "{variant} at mutation {k}/{n} [{site}]{} during {}: {}",
                    second.map(|j| format!(
                        " and again before mutation {j} after the restart"
                    )).unwrap_or_default(),
                    target.kind(), v.detail
                );
                v.step = k as usize;
                v.rule = format!("{}@{}", v.rule, site_class);
                report.violations.push(v);
            }
            if let Some(norm) = &res.norm {
                let (twin_cmp, norm_cmp) = align_recreated(&twin_norm, norm);
                let (twin_norm, norm) = (&twin_cmp, &norm_cmp);
                if norm != twin_norm {
                    let diff = first_diff(twin_norm, norm, "");
                    if std::env::var_os("VERIF_DEBUG").is_some() {
                        eprintln!(
                            "=== diverged at {k} {variant}\n--- twin\n{}\n--- faulted\n{}",
                            serde_json::to_string_pretty(&twin_norm).unwrap(),
                            serde_json::to_string_pretty(norm).unwrap()
                        );
                    }
                    // Deleting a CA asks its parents for revocation and
                    // empties its repositories "best effort" before the
                    // CA is dropped: a failing write in that part is
                    // ignored by design.
                    let best_effort = matches!(target, Op::DeleteCa { .. })
                        && (*variant == "fail" || *variant == "full")
                        && twin.sites.iter().position(|s| {
                            s.contains(":delete_scope:")
                        }).map(|p| (k as usize) <= p).unwrap_or(false);
                    // Removing a parent does the same: the revocation
                    // requests for the keys under that parent are sent
                    // "best effort" before the status entry and the
                    // parent are removed.
                    let best_effort_parent = match &target {
                        Op::RemoveParent { name, .. } => {
                            (*variant == "fail" || *variant == "full")
                                && twin.sites.iter().position(|s| {
                                    s.contains(&format!(
                                        ":delete:{name}:parents-"
                                    ))
                                }).map(|p| (k as usize) <= p).unwrap_or(false)
                        }
                        _ => false,
                    };
                    let rule = if best_effort {
                        "delete_ca_best_effort_step_failed"
                    }
                    else if best_effort_parent {
                        "remove_parent_best_effort_step_failed"
                    }
                    else if in_window {
                        // The stored object set is ahead of the CA and
                        // the request cannot be repeated successfully.
                        "object_set_ahead_of_command"
                    }
                    else {
                        "diverged_from_twin"
                    };
                    report.violations.push(Violation {
                        prop: "C08".into(),
                        rule: format!("{rule}@{site_class}"),
                        detail: format!(
                            "{variant} at mutation {k}/{n} [{site}] during \
                             {}: after recovery the observable state \
                             differs from the fault-free twin at {}",
                            target.kind(), diff.unwrap_or_default()
                        ),
                        step: k as usize,
                    });
                }
            }
        }
    }
    report.stats.insert("distinct_cut_sites".into(), sites_seen.len() as u64);
    report.probes.insert("cut_sites".into(), sites_seen.len() as u64);
    report.fingerprint = crate::util::sha256_hex(
        format!("{:?}{:?}{}", sites_seen, target, n).as_bytes()
    );
    report.extra_sites = sites_seen.into_iter().collect();
    report.caught_up_checks = 1;
    report.state_changing_ops = 1;
    // Keep one violation per (prop, rule).
    let mut seen = BTreeSet::new();
    report.violations.retain(|v| seen.insert((v.prop.clone(), v.rule.clone())));
    report.wall_ms = t0.elapsed().as_millis() as u64;
    world::remove_run_dir(&base);
    report
}

/// Prepares the two normalised states for comparison.
///
/// Class names are not compared. Where the faulted run re-created a
/// resource class (the names differ: "failed certificate processing drops
/// the resource class so it is re-created"), the new class has one fresh
/// key, so a key roll that was in progress is over: roll stages are then
/// compared as "active".
pub(crate) fn align_recreated(twin: &Value, faulted: &Value) -> (Value, Value) {
    let mut twin = twin.clone();
    let mut faulted = faulted.clone();
    let names: Vec<String> = twin.get("cas").and_then(|c| c.as_object())
        .map(|m| m.keys().cloned().collect()).unwrap_or_default();
    let mut recreated = false;
    for name in names {
        let a = twin["cas"][&name]["_rcns"].clone();
        let b = faulted.get("cas").and_then(|c| c.get(&name))
            .and_then(|c| c.get("_rcns")).cloned().unwrap_or(Value::Null);
        if a != b && !b.is_null() {
            recreated = true;
            for side in [&mut twin, &mut faulted] {
                if let Some(list) = side["cas"][&name]["classes"].as_array_mut() {
                    for item in list.iter_mut() {
                        if let Some(text) = item.as_str() {
                            if let Some((parent, state)) = text.rsplit_once(':') {
                                if state.starts_with("roll_") {
                                    *item = Value::String(
                                        format!("{parent}:active")
                                    );
                                }
                            }
                        }
                    }
                }
            }
        }
    }
    if recreated {
        // The number of certificates a parent publishes for a child
        // depends on the roll stage.
        for side in [&mut twin, &mut faulted] {
            if let Some(shapes) = side.get_mut("shapes")
                .and_then(|c| c.as_object_mut())
            {
                for (_, shape) in shapes.iter_mut() {
                    if let Some(list) = shape.as_array_mut() {
                        if list.len() == 3 {
                            list[2] = Value::from(0);
                        }
                    }
                }
            }
        }
    }
    for side in [&mut twin, &mut faulted] {
        if let Some(cas) = side.get_mut("cas").and_then(|c| c.as_object_mut()) {
            for (_, ca) in cas.iter_mut() {
                if let Some(obj) = ca.as_object_mut() {
                    obj.remove("_rcns");
                }
            }
        }
    }
    (twin, faulted)
}

/// Replaces path segments that are a resource class name (`/0/`, `/12/`)
/// by `/N/`.
fn mask_class_dirs(text: &str) -> String {
    let mut out = String::with_capacity(text.len());
    let mut rest = text;
    while let Some(pos) = rest.find('/') {
        out.push_str(&rest[..=pos]);
        rest = &rest[pos + 1..];
        let digits = rest.bytes().take_while(|b| b.is_ascii_digit()).count();
        if digits > 0 && rest[digits..].starts_with('/') {
            out.push('N');
            rest = &rest[digits..];
        }
    }
    out.push_str(rest);
    out
}

/// Replaces every run of 40 hex digits (a key identifier) by `KEY`.
fn mask_key_ids(text: &str) -> String {
    let bytes = text.as_bytes();
    let mut out = String::with_capacity(text.len());
    let mut i = 0;
    while i < bytes.len() {
        let mut j = i;
        while j < bytes.len() && bytes[j].is_ascii_hexdigit() {
            j += 1;
        }
        if j - i == 40 {
            out.push_str("KEY");
            i = j;
        }
        else if j > i {
            out.push_str(&text[i..j]);
            i = j;
        }
        else {
            // Not a hex digit: copy one character.
            let ch = text[i..].chars().next().unwrap();
            out.push(ch);
            i += ch.len_utf8();
        }
    }
    out
}

/// Whether cut point `k` (1-based) lies after a CA's object set was written
/// by the pre-save listener and before the command that caused it is
/// stored.
pub(crate) fn in_presave_window(sites: &[String], k: usize) -> bool {
    // Find the last ca_objects store before k.
    let mut idx = None;
    for (i, site) in sites.iter().enumerate().take(k - 1) {
        if classify_site(site) == "kv.store.ca_objects" {
            idx = Some(i);
        }
        else if classify_site(site) == "kv.store.command" {
            idx = None;
        }
    }
    idx.is_some()
}

/// Reduces a mutation description to its kind (for coverage and rules).
pub fn classify_site(site: &str) -> String {
    // kv:<inst>:<op>:<scope>:<key>  |  fs:<inst>:<op>:<path>
    let parts: Vec<&str> = site.split(':').collect();
    if parts.first() == Some(&"kv") && parts.len() >= 5 {
        let op = parts[2];
        let scope = parts[3];
        let key = parts[4];
        let kind = if key.starts_with("command-") {
            "command"
        } else if key == "snapshot.json" {
            "snapshot"
        } else if scope == "pending" || scope == "running" {
            "task"
        } else if key.ends_with(".json") && scope == "-" {
            "ca_objects"
        } else if key.starts_with("wal-") || key.starts_with("change-") {
            "wal"
        } else if key.starts_with("parents-") || key.starts_with("children-")
            || key.starts_with("repos-")
        {
            "status"
        } else if key.len() == 40 && key.bytes().all(|b| b.is_ascii_hexdigit()) {
            "key"
        } else {
            "other"
        };
        format!("kv.{op}.{kind}")
    }
    else if parts.first() == Some(&"fs") && parts.len() >= 4 {
        let op = parts[2];
        let path = parts[3];
        let kind = if path.contains("/rsync/") || path.ends_with("/rsync") {
            "rsync"
        } else if path.contains("notification") {
            "notification"
        } else if path.contains("snapshot.xml") {
            "snapshot"
        } else if path.contains("delta.xml") {
            "delta"
        } else if path.contains("/rrdp") {
            "rrdp"
        } else {
            "other"
        };
        format!("fs.{op}.{kind}")
    }
    else {
        "unknown".to_string()
    }
}

fn first_diff(a: &Value, b: &Value, path: &str) -> Option<String> {
    match (a, b) {
        (Value::Object(x), Value::Object(y)) => {
            for (k, v) in x {
                match y.get(k) {
                    Some(w) => {
                        if let Some(d) = first_diff(v, w, &format!("{path}/{k}")) {
                            return Some(d)
                        }
                    }
                    None => return Some(format!("{path}/{k}: only in twin")),
                }
            }
            for k in y.keys() {
                if !x.contains_key(k) {
                    return Some(format!("{path}/{k}: only in faulted run"))
                }
            }
            None
        }
        _ => {
            if a == b { None } else {
                Some(format!("{path}: twin {a} vs faulted {b}"))
            }
        }
    }
}

#[allow(clippy::too_many_arguments)]
fn run_phase(
    seed: u64, base: &Path, snap_dir: &Path, live_dir: &Path,
    snap: &SimSnapshot, target: &Op, mode: FaultMode, fs_only: bool,
    is_twin: bool, c09: Option<BTreeSet<String>>, second: Option<u64>,
) -> PhaseResult {
    let mut out = PhaseResult {
        violations: Vec::new(),
        sites: Vec::new(),
        counter: 0,
        norm: None,
        fired_at: None,
        stats: BTreeMap::new(),
        harness_error: None,
        kv: 0,
        fs: 0,
        result_of_op: String::new(),
        open_requests: BTreeSet::new(),
        second_in_window: false,
    };
    if let Err(err) = restore_dir(snap_dir, live_dir) {
        out.harness_error = Some(err);
        return out
    }
    let oracles = Oracles { c01: is_twin, ..Default::default() };
    let mut r = match begin_phase(seed, base, snap, oracles) {
        Ok(r) => r,
        Err(err) => {
            out.harness_error = Some(err);
            return out
        }
    };
    let pre_repo = hooks::with_faults_suspended(|| {
        r.world.inst(0).rt().repo_manager().repo_stats().ok()
            .map(|s| (s.session.to_string(), s.serial))
    });
    // C11: the clients know the state before the unit.
    let pre_view = if fs_only {
        let inst = r.world.inst(0);
        crate::served::fetch_rrdp(
            &inst.repo_dir(), &inst.cfg.rrdp_base_uri()
        ).ok().map(|x| x.0)
    }
    else {
        None
    };
    let pre_sets = if c09.is_some() {
        crate::c09::all_stored_objects(&r)
    }
    else {
        BTreeMap::new()
    };
    // Arm.
    {
        let mut st = hooks::state();
        st.fault = FaultPlan {
            mode: mode.clone(),
            scope: if fs_only { FaultScope::FsOnly } else { FaultScope::All },
            instance: None,
            counter: 0,
            fired_at: None,
            record: true,
            sites: Vec::new(),
        };
    }
    if snap.advance_in_unit > 0 {
        r.world.advance(snap.advance_in_unit);
    }
    out.result_of_op = exec_unit(&mut r, target);
    // Disarm and collect.
    {
        let mut st = hooks::state();
        out.counter = st.fault.counter;
        out.sites = std::mem::take(&mut st.fault.sites);
        out.fired_at = st.fault.fired_at.clone();
        st.fault = FaultPlan::default();
    }
    let crashed = matches!(r.dead.as_deref(), Some("crash"));
    let what = match &mode {
        FaultMode::None => "twin".to_string(),
        m => format!("{m:?}"),
    };
    if let Some(dead) = r.dead.clone() {
        if !crashed {
            // Fatal exit or panic caused by the fault: the daemon is gone
            // all the same; continue with a restart, the violation (if it
            // is one) has been recorded by the runner.
            hooks::log(format!("died: {dead}"));
        }
        r.world.insts[0].stop();
        if let (Some(j), true) = (second, crashed) {
            // A second crash: before the j-th mutation of the start-up
            // and of the background work that follows it.
            out.second_in_window = second_crash(&mut r, j, fs_only);
        }
        match guarded(|| r.world.insts[0].start()) {
            Guarded::Ok(Ok(())) => { }
            other => {
                r.violation(
                    "C08", "restart_fails",
                    format!("{what}: the instance does not start: {other:?}")
                );
                let (v, s, kv, fs) = finish_phase(&mut r);
                out.violations = v;
                out.stats = s;
                out.kv = kv;
                out.fs = fs;
                return out
            }
        }
        r.dead = None;
    }
    if fs_only {
        // C11: what is served right after the cut, that the interrupted
        // write is completed, and that later writes work.
        c11_after_cut(&mut r, &what, is_twin, &pre_view);
        debug_phase(&r, &what, &out.result_of_op);
        let (v, s, kv, fs) = finish_phase(&mut r);
        out.violations = v;
        out.stats = s;
        out.kv = kv;
        out.fs = fs;
        return out
    }
    if let Some(baseline) = c09 {
        // C09: restart (done above if the process died), run every due
        // task, and look whether every follow-up has been executed.
        if is_twin {
            // The twin is restarted as well so that both went through the
            // start-up path.
            r.world.insts[0].stop();
            match guarded(|| r.world.insts[0].start()) {
                Guarded::Ok(Ok(())) => { }
                other => {
                    out.harness_error = Some(format!(
                        "twin does not restart: {other:?}"
                    ));
                    return out
                }
            }
        }
        for _ in 0..2 {
            let res = r.exec_pump();
            hooks::log(format!("recover pump {res}"));
            if r.dead.is_some() { break }
        }
        if matches!(mode, FaultMode::FailAt(_)) && r.dead.is_none() {
            // A task that failed on the I/O error is retried later (the
            // RRDP update after an hour): late, not lost.
            r.world.advance(3700);
            for _ in 0..2 {
                let res = r.exec_pump();
                hooks::log(format!("recover retry pump {res}"));
                if r.dead.is_some() { break }
            }
        }
        if r.dead.is_some() {
            r.violation(
                "C09", "recovery_dies",
                format!("{what}: pumping after restart ended with {:?}", r.dead)
            );
        }
        else {
            check_restart_queue(&mut r, &what);
            let mut found = crate::c09::followups_done(&r, &baseline, &pre_sets);
            if found.iter().any(|f| f.0 == "parent_sync_not_done") {
                // A parent synchronisation that is queued for the next
                // regular refresh is late, not lost: let that time pass.
                let secs = r.world.inst(0).cfg.ca_refresh_seconds as i64
                    + r.world.inst(0).cfg.ca_refresh_jitter_seconds as i64
                    + 120;
                r.world.advance(secs);
                for _ in 0..2 {
                    let res = r.exec_pump();
                    hooks::log(format!("recover late pump {res}"));
                    if r.dead.is_some() { break }
                }
                found.retain(|f| f.0 != "parent_sync_not_done");
                if r.dead.is_none() {
                    found.extend(
                        crate::c09::followups_done(&r, &baseline, &pre_sets)
                            .into_iter()
                            .filter(|f| f.0 == "parent_sync_not_done")
                    );
                }
            }
            out.open_requests = crate::c09::open_request_cas(&r);
            for (rule, detail) in found {
                r.violation("C09", &rule, format!("{what}: {detail}"));
            }
        }
        debug_phase(&r, &what, &out.result_of_op);
        let (v, s, kv, fs) = finish_phase(&mut r);
        out.violations = v;
        out.stats = s;
        out.kv = kv;
        out.fs = fs;
        return out
    }
    if !matches!(mode, FaultMode::None) && out.fired_at.is_some() {
        post_cut_checks(&mut r, &what, &pre_repo);
    }
    recover(&mut r, target);
    if r.dead.is_some() {
        r.violation(
            "C08", "recovery_dies",
            format!("{what}: recovery procedure ended with {:?}", r.dead)
        );
    }
    else {
        if crashed || is_twin {
            // The twin is restarted as well (it began with a start()).
            check_restart_queue(&mut r, &what);
        }
        out.norm = Some(norm_state(&r));
    }
    debug_phase(&r, &what, &out.result_of_op);
    let (v, s, kv, fs) = finish_phase(&mut r);
    out.violations = v;
    out.stats = s;
    out.kv = kv;
    out.fs = fs;
    out
}


/// The instance is down after a first crash: start it with a crash armed
/// before the j-th mutation of the start-up path and of the first round of
/// background work. Leaves the instance stopped (the caller starts it).
fn second_crash(r: &mut Runner, j: u64, fs_only: bool) -> bool {
    {
        let mut st = hooks::state();
        st.fault = FaultPlan {
            mode: FaultMode::CrashAt(j),
            scope: if fs_only { FaultScope::FsOnly } else { FaultScope::All },
            instance: None,
            counter: 0,
            fired_at: None,
            record: true,
            sites: Vec::new(),
        };
    }
    r.dead = None;
    let started = guarded(|| r.world.insts[0].start());
    let mut where_ = "not reached";
    match started {
        Guarded::Ok(Ok(())) => {
            let res = r.exec_pump();
            hooks::log(format!("second crash stage pump {res}"));
            if matches!(r.dead.as_deref(), Some("crash")) {
                where_ = "background work after start-up";
            }
        }
        Guarded::Crash => { where_ = "start-up"; }
        Guarded::Fatal(_) if hooks::state().fault.fired_at.is_some() => {
            where_ = "start-up";
        }
        other => {
            r.violation(
                "C08", "restart_fails",
                format!("second start (crash armed at {j}): {other:?}")
            );
        }
    }
    let (fired, in_window) = {
        let mut st = hooks::state();
        let fired = st.fault.fired_at.clone();
        let in_window = fired.is_some()
            && in_presave_window(&st.fault.sites, st.fault.sites.len());
        st.fault = FaultPlan::default();
        (fired, in_window)
    };
    match (&fired, where_) {
        (Some(at), w) => {
            hooks::log(format!("second crash at {j} [{at}] in {w}"));
            r.stat(&format!("second_crash.{}", w.replace(' ', "_")));
        }
        (None, _) => {
            r.stat("second_crash.not_reached");
        }
    }
    if r.dead.as_deref().map(|d| d != "crash").unwrap_or(false) {
        // A violation (exit, panic) was recorded by the runner.
        hooks::log(format!("second crash stage died: {:?}", r.dead));
    }
    r.dead = None;
    r.world.insts[0].stop();
    in_window
}

fn debug_phase(r: &Runner, what: &str, result_of_op: &str) {
    if std::env::var_os("VERIF_DEBUG").is_some() {
        eprintln!("--- phase {what}: op result {}", result_of_op);
        let full = std::env::var("VERIF_DEBUG").map(|v| v == what)
            .unwrap_or(false);
        if full {
            if let Ok((objects, _)) = r.world.objects(0) {
                for (uri, data) in objects.iter() {
                    eprintln!("    repo {uri} {}", data.len());
                }
            }
        }
        for line in hooks::state().trace.iter().filter(|l| {
            full || l.starts_with("recover") || l.starts_with("died")
                || l.starts_with("second")
                || l.starts_with("op ") || l.starts_with("fault")
        }) {
            eprintln!("    {line}");
        }
    }
}

pub fn profile(name: &str) -> Option<CutProfile> {
    let base = CutProfile {
        name: "c08",
        prefix_min: 4,
        prefix_max: 12,
        max_cuts: 24,
        fs_only: false,
        gen_cfg: GenCfg {
            allow_restart: false,
            max_cas: 4,
            w_clock: 3,
            max_advance: 3600,
            // The publication server's operator removes a CA's publisher.
            w_status: 4,
            ..GenCfg::default()
        },
        torn_writes: false,
        c09_mode: false,
    };
    Some(match name {
        "c08" => base,
        "c09cuts" => CutProfile {
            name: "c09cuts", c09_mode: true, max_cuts: 40, ..base
        },
        "c11cuts" => CutProfile {
            name: "c11cuts",
            fs_only: true,
            torn_writes: true,
            max_cuts: 40,
            ..base
        },
        _ => return None
    })
}

pub fn _unused(_: PathBuf) {}
