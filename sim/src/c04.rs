//! C04: key rollover is safe in every interleaving and always completes.

use std::collections::{BTreeMap, BTreeSet};
use crate::history::Runner;
use crate::hooks;
use crate::objsets;
use crate::rp::RpResult;

#[derive(Default)]
pub struct State {
    pub last_entitlement_change: usize,
    /// (ca, rcn) -> product names under the current key at the last instant.
    pub products: BTreeMap<(String, String), BTreeSet<String>>,
    /// (ca, rcn) -> state at the last instant.
    pub states: BTreeMap<(String, String), String>,
    pub activations_seen: u64,
    pub stagings_seen: u64,
    pub finishes_seen: u64,
}

/// Invariants over the stored object sets and the key state, evaluated after
/// every operation and every background task.
pub fn instant(r: &mut Runner) {
    let cas: Vec<(usize, String)> = r.model.cas.values()
        .map(|c| (c.inst, c.name.clone())).collect();
    for (inst, name) in cas {
        if !r.world.inst(inst).is_up() {
            continue
        }
        let classes = hooks::with_faults_suspended(|| {
            objsets::read(r.world.inst(inst).rt(), &name)
        });
        let infos = r.class_infos(inst, &name);
        for class in &classes {
            let key = (name.clone(), class.rcn.clone());
            let info = infos.iter().find(|i| i.rcn == class.rcn);
            // Key state and object sets move in step.
            if let Some(info) = info {
                let expect = match info.state.as_str() {
                    "roll_new" => "staging",
                    "roll_old" => "old",
                    "active" | "roll_pending" => "current",
                    _ => "",
                };
                if !expect.is_empty() && expect != class.state {
                    r.violation(
                        "C04", "sets_out_of_step",
                        format!(
                            "CA {name} class {}: key state is {} but the \
                             object sets are in state {}",
                            class.rcn, info.state, class.state
                        )
                    );
                }
            }
            let mut current_products = BTreeSet::new();
            for set in &class.sets {
                match set.role.as_str() {
                    "current_set" => {
                        current_products = set.products.keys().cloned()
                            .collect();
                    }
                    "staging_set" | "old_set" => {
                        if !set.products.is_empty() {
                            r.violation(
                                "C04", "products_under_two_keys",
                                format!(
                                    "CA {name} class {}: the {} of key {} \
                                     holds products {:?}; only a manifest \
                                     and CRL are allowed there",
                                    class.rcn, set.role, set.key_id,
                                    set.products.keys().collect::<Vec<_>>()
                                )
                            );
                        }
                    }
                    _ => { }
                }
            }
            // Activation moves every product at once: the set of product
            // names under the signing key is the same before and after.
            let prev_state = r.ext.c04.states.get(&key).cloned();
            if let Some(prev) = &prev_state {
                if prev == "staging" && class.state == "old" {
                    r.ext.c04.activations_seen += 1;
                    let before = r.ext.c04.products.get(&key).cloned()
                        .unwrap_or_default();
                    // Child certificates and objects are named after their
                    // content (payload or subject key), so equal names mean
                    // equal payloads.
                    if before != current_products {
                        r.violation(
                            "C04", "activation_changed_products",
                            format!(
                                "CA {name} class {}: products before \
                                 activation {before:?}, after \
                                 {current_products:?}", class.rcn
                            )
                        );
                    }
                }
                if prev == "current" && class.state == "staging" {
                    r.ext.c04.stagings_seen += 1;
                }
                if prev == "old" && class.state == "current" {
                    r.ext.c04.finishes_seen += 1;
                }
            }
            r.ext.c04.states.insert(key.clone(), class.state.clone());
            r.ext.c04.products.insert(key, current_products);
        }
        // Classes that went away.
        let alive: BTreeSet<String> = classes.iter().map(|c| c.rcn.clone())
            .collect();
        r.ext.c04.states.retain(|(ca, rcn), _| ca != &name || alive.contains(rcn));
        r.ext.c04.products.retain(|(ca, rcn), _| ca != &name || alive.contains(rcn));
    }
}

pub fn after_task(_r: &mut Runner) { }

/// The published view: per resource class exactly one key's publication
/// point carries products.
pub fn at_caught_up(r: &mut Runner, repo_inst: usize, rpres: &RpResult) {
    let jail = r.world.inst(repo_inst).cfg.rsync_jail();
    let cas: Vec<(usize, String)> = r.model.cas.values()
        .map(|c| (c.inst, c.name.clone())).collect();
    for (inst, name) in cas {
        for class in r.class_infos(inst, &name) {
            if !r.class_live(inst, &name, &class.name_space, 0) {
                continue
            }
            let dir = format!("{jail}{name}/{}/", class.name_space);
            let points: Vec<&crate::rp::PubPoint> = rpres.pub_points.iter()
                .filter(|pp| pp.repo_dir == dir).collect();
            let with_products = points.iter()
                .filter(|pp| !pp.products.is_empty()).count();
            if with_products > 1 {
                r.violation(
                    "C04", "published_products_under_two_keys",
                    format!(
                        "CA {name} class {}: {} keys publish products in {dir}",
                        class.rcn, with_products
                    )
                );
            }
            match class.state.as_str() {
                "active" => {
                    if points.len() > 1 {
                        r.violation(
                            "C04", "old_key_lingers",
                            format!(
                                "CA {name} class {} is in the single active \
                                 key state but {} keys publish in {dir}",
                                class.rcn, points.len()
                            )
                        );
                    }
                }
                "roll_new" | "roll_old" => {
                    for pp in &points {
                        let is_active = class.active_key.as_deref()
                            == Some(pp.ca_key.to_string().as_str());
                        if !is_active && !pp.products.is_empty() {
                            r.violation(
                                "C04", "inactive_key_publishes_products",
                                format!(
                                    "CA {name} class {} ({}): key {} is not \
                                     the active key but publishes {:?}",
                                    class.rcn, class.state, pp.ca_key,
                                    pp.products
                                )
                            );
                        }
                    }
                }
                _ => { }
            }
        }
    }
}

/// Once faults stopped every roll finishes in the single active key state.
pub fn final_liveness(r: &mut Runner) {
    if !r.oracles.c04 {
        return
    }
    crate::net::set_quiet(true);
    let rounds = crate::c02::settle(r, 8);
    if r.dead.is_some() {
        return
    }
    if rounds.is_none() {
        let mut stuck = Vec::new();
        let cas: Vec<(usize, String)> = r.model.cas.values()
            .map(|c| (c.inst, c.name.clone())).collect();
        for (inst, name) in cas {
            for class in r.class_infos(inst, &name) {
                if class.state != "active"
                    && r.class_live(inst, &name, &class.name_space, 0)
                {
                    stuck.push(format!("{name}/{}:{}", class.rcn, class.state));
                }
            }
        }
        r.violation(
            "C04", "roll_does_not_finish",
            format!(
                "8 rounds of refresh, pump and activate did not bring every \
                 resource class to the single active key state: {stuck:?}"
            )
        );
    }
}
