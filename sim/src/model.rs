//! O-INTENT: the reference model kept by the harness.
//!
//! A plain data structure updated alongside every operation the harness
//! issues. It knows what was configured (and accepted), the delegation tree
//! with entitlements, and predicts accept/refuse for configuration commands.
//! Resource containment for *payload* predictions is taken from validated
//! certificates (O-RP), not recomputed here.

use std::collections::{BTreeMap, BTreeSet};
use std::net::{Ipv4Addr, Ipv6Addr};
use rpki::repository::resources::ResourceSet;
use serde::{Deserialize, Serialize};

//------------ Resource lattice ----------------------------------------------

/// Resources as a subset of a fixed universe of blocks:
/// * IPv4 block k: 10.k.0.0/16 (k in 0..16)
/// * IPv6 block k: 2001:db8:k::/48 (k in 0..8)
/// * AS block k: AS(65000+10k) .. AS(65000+10k+9) (k in 0..8)
#[derive(Clone, Copy, Debug, Default, PartialEq, Eq, Serialize, Deserialize)]
pub struct Res {
    pub v4: u16,
    pub v6: u8,
    pub asn: u8,
}

pub const V4_BLOCKS: u32 = 16;
pub const V6_BLOCKS: u32 = 8;
pub const AS_BLOCKS: u32 = 8;

impl Res {
    pub const ALL: Res = Res { v4: 0xffff, v6: 0xff, asn: 0xff };
    pub const NONE: Res = Res { v4: 0, v6: 0, asn: 0 };

    pub fn is_empty(&self) -> bool {
        self.v4 == 0 && self.v6 == 0 && self.asn == 0
    }

    pub fn intersect(&self, other: &Res) -> Res {
        Res {
            v4: self.v4 & other.v4,
            v6: self.v6 & other.v6,
            asn: self.asn & other.asn,
        }
    }

    pub fn union(&self, other: &Res) -> Res {
        Res {
            v4: self.v4 | other.v4,
            v6: self.v6 | other.v6,
            asn: self.asn | other.asn,
        }
    }

    pub fn contains(&self, other: &Res) -> bool {
        self.intersect(other) == *other
    }

    pub fn v4_block(k: u32) -> String {
        format!("10.{k}.0.0/16")
    }

    pub fn v6_block(k: u32) -> String {
        format!("2001:db8:{k:x}::/48")
    }

    pub fn as_block(k: u32) -> String {
        format!("AS{}-AS{}", 65000 + 10 * k, 65000 + 10 * k + 9)
    }

    pub fn to_strs(&self) -> (String, String, String) {
        let join = |n: u32, bits: u32, f: fn(u32) -> String| {
            (0..n).filter(|k| bits & (1 << k) != 0).map(f)
                .collect::<Vec<_>>().join(", ")
        };
        (
            join(AS_BLOCKS, self.asn as u32, Res::as_block),
            join(V4_BLOCKS, self.v4 as u32, Res::v4_block),
            join(V6_BLOCKS, self.v6 as u32, Res::v6_block),
        )
    }

    pub fn to_set(&self) -> ResourceSet {
        let (asn, v4, v6) = self.to_strs();
        ResourceSet::from_strs(&asn, &v4, &v6).expect("lattice resources")
    }

    /// The largest lattice element contained in `set`.
    pub fn from_set(set: &ResourceSet) -> Res {
        let mut res = Res::NONE;
        for k in 0..V4_BLOCKS {
            let block = ResourceSet::from_strs("", &Res::v4_block(k), "")
                .unwrap();
            if set.contains(&block) {
                res.v4 |= 1 << k;
            }
        }
        for k in 0..V6_BLOCKS {
            let block = ResourceSet::from_strs("", "", &Res::v6_block(k))
                .unwrap();
            if set.contains(&block) {
                res.v6 |= 1 << k;
            }
        }
        for k in 0..AS_BLOCKS {
            let block = ResourceSet::from_strs(&Res::as_block(k), "", "")
                .unwrap();
            if set.contains(&block) {
                res.asn |= 1 << k;
            }
        }
        res
    }

    /// Whether `set` is exactly a union of lattice blocks equal to self.
    pub fn equals_set(&self, set: &ResourceSet) -> bool {
        &self.to_set() == set
    }
}

impl std::fmt::Display for Res {
    fn fmt(&self, f: &mut std::fmt::Formatter) -> std::fmt::Result {
        write!(f, "v4:{:04x} v6:{:02x} as:{:02x}", self.v4, self.v6, self.asn)
    }
}

//------------ Payload keys --------------------------------------------------

/// A configured route authorisation, with explicit max length.
#[derive(
    Clone, Debug, PartialEq, Eq, PartialOrd, Ord, Hash, Serialize, Deserialize
)]
pub struct RoaKey {
    pub asn: u32,
    /// Canonical prefix text, e.g. "10.1.2.0/24" or "2001:db8:1::/48".
    pub prefix: String,
    pub max_len: u8,
}

/// A prefix in numeric form so that containment can be computed.
#[derive(Clone, Debug, PartialEq, Eq, Serialize, Deserialize)]
pub struct Pfx {
    pub v4: bool,
    #[serde(with = "addr_hex")]
    pub addr: u128,
    pub len: u8,
}

/// Serialises the address as a hex string (JSON numbers cannot hold it).
mod addr_hex {
    use serde::{Deserialize, Deserializer, Serializer};

    pub fn serialize<S: Serializer>(v: &u128, s: S) -> Result<S::Ok, S::Error> {
        s.serialize_str(&format!("{v:x}"))
    }

    pub fn deserialize<'de, D: Deserializer<'de>>(d: D) -> Result<u128, D::Error> {
        let text = String::deserialize(d)?;
        u128::from_str_radix(&text, 16).map_err(serde::de::Error::custom)
    }
}

impl Pfx {
    pub fn v4(a: u8, b: u8, c: u8, d: u8, len: u8) -> Self {
        let addr = u32::from_be_bytes([a, b, c, d]) as u128;
        Pfx { v4: true, addr, len }
    }

    pub fn v6(segs: [u16; 8], len: u8) -> Self {
        let mut addr: u128 = 0;
        for s in segs {
            addr = (addr << 16) | s as u128;
        }
        Pfx { v4: false, addr, len }
    }

    pub fn text(&self) -> String {
        if self.v4 {
            format!("{}/{}", Ipv4Addr::from(self.addr as u32), self.len)
        }
        else {
            format!("{}/{}", Ipv6Addr::from(self.addr), self.len)
        }
    }

    pub fn family_len(&self) -> u8 {
        if self.v4 { 32 } else { 128 }
    }

    pub fn to_set(&self) -> ResourceSet {
        if self.v4 {
            ResourceSet::from_strs("", &self.text(), "").expect("v4 prefix")
        }
        else {
            ResourceSet::from_strs("", "", &self.text()).expect("v6 prefix")
        }
    }
}

//------------ Model ---------------------------------------------------------

#[derive(Clone, Debug, PartialEq, Eq, Serialize, Deserialize)]
pub struct MParent {
    pub parent_inst: usize,
    /// Name of the parent CA ("ta" for the trust anchor).
    pub parent_ca: String,
    /// The handle under which the parent knows this CA.
    pub child_handle: String,
}

#[derive(Clone, Debug, PartialEq, Eq, Serialize, Deserialize)]
pub struct MChild {
    pub ent: Res,
    pub suspended: bool,
    /// The instance hosting the child as a Krill CA, if any.
    pub child_inst: Option<usize>,
    pub child_ca: String,
    /// Was suspended at some point (statement: "whatever the child's earlier
    /// suspension history").
    pub was_suspended: bool,
}

#[derive(Clone, Debug, Default, PartialEq, Eq, Serialize, Deserialize)]
pub struct MCa {
    pub name: String,
    pub inst: usize,
    pub has_repo: bool,
    pub repo_inst: usize,
    pub parents: BTreeMap<String, MParent>,
    pub children: BTreeMap<String, MChild>,
    pub roas: BTreeMap<RoaKey, Option<String>>,
    pub aspas: BTreeMap<u32, BTreeSet<u32>>,
    /// (asn, csr index)
    pub bgpsec: BTreeSet<(u32, usize)>,
    /// Its certificate was removed at a parent (or an ancestor's was) and it
    /// has not been re-added.
    pub orphaned: bool,
}

#[derive(Clone, Debug, Default, Serialize, Deserialize)]
pub struct Model {
    /// Keyed by (instance, ca name) rendered as "i/name".
    pub cas: BTreeMap<String, MCa>,
    /// Children of the TA proxy per instance: child handle -> entitlement.
    pub ta_children: BTreeMap<String, MChild>,
}

pub fn ca_key(inst: usize, name: &str) -> String {
    format!("{inst}/{name}")
}

impl Model {
    pub fn ca(&self, inst: usize, name: &str) -> Option<&MCa> {
        self.cas.get(&ca_key(inst, name))
    }

    pub fn ca_mut(&mut self, inst: usize, name: &str) -> Option<&mut MCa> {
        self.cas.get_mut(&ca_key(inst, name))
    }

    pub fn names(&self, inst: usize) -> Vec<String> {
        self.cas.values().filter(|c| c.inst == inst)
            .map(|c| c.name.clone()).collect()
    }

    /// The entitlement record for `child` at `parent`.
    pub fn child_at(
        &self, pinst: usize, parent: &str, child: &str
    ) -> Option<&MChild> {
        if parent == "ta" {
            self.ta_children.get(&ca_key(pinst, child))
        }
        else {
            self.ca(pinst, parent).and_then(|p| p.children.get(child))
        }
    }

    /// All CAs that descend from `(inst, name)` through model parent links,
    /// including itself.
    pub fn descendants(&self, inst: usize, name: &str) -> Vec<(usize, String)> {
        let mut out = vec![(inst, name.to_string())];
        let mut i = 0;
        while i < out.len() {
            let (pi, pn) = out[i].clone();
            for ca in self.cas.values() {
                if ca.parents.values().any(|p| {
                    p.parent_inst == pi && p.parent_ca == pn
                }) && !out.contains(&(ca.inst, ca.name.clone())) {
                    out.push((ca.inst, ca.name.clone()));
                }
            }
            i += 1;
        }
        out
    }
}
