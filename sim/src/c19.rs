//! C19: the reported parent, repository and child status matches the last
//! exchange.
//!
//! The outcome of every synchronisation attempt is derived from what the
//! scheduler and the synchronisation code *log* (captured through the `log`
//! facade while this oracle is on) - a path that is independent of the
//! status store - and compared with the status and issues views after every
//! background task and every operation.

use std::collections::BTreeMap;
use std::str::FromStr;
use rpki::ca::idexchange::PublisherHandle;
use serde_json::Value;
use crate::history::Runner;
use crate::hooks;
use crate::sim::handle;
use crate::util::sha256_hex;

#[derive(Clone, Debug, Default)]
pub struct State {
    /// (ca, parent) -> whether the most recent attempt succeeded.
    pub parent_outcome: BTreeMap<(String, String), bool>,
    /// ca -> whether the most recent repository synchronisation succeeded.
    pub repo_outcome: BTreeMap<String, bool>,
    pub attempts_seen: u64,
    pub failures_seen: u64,
    pub views_checked: u64,
    /// (ca, parent) -> whether the CA had open requests for that parent
    /// before the background task now running (then the synchronisation
    /// sends those; otherwise it asks for the entitlements).
    pub pending_before: BTreeMap<(String, String), bool>,
    /// (ca, parent) -> the entitlement classes shown after the last check.
    pub classes_shown: BTreeMap<(String, String), Value>,
    pub entitlement_checks: u64,
    /// CAs whose publisher the server's operator removed (content wiped)
    /// since their last synchronisation attempt: what the server holds
    /// now is no longer what it held after the last successful
    /// synchronisation.
    pub server_wiped: std::collections::BTreeSet<String>,
}

pub fn start(r: &mut Runner) {
    let _ = r;
    crate::capture_logs(true);
}

fn quoted(text: &str, after: &str) -> Option<String> {
    let rest = &text[text.find(after)? + after.len()..];
    let rest = rest.strip_prefix('\'')?;
    Some(rest[..rest.find('\'')?].to_string())
}

/// Digests the log lines emitted since the last call.
fn absorb_logs(r: &mut Runner) {
    let lines = crate::drain_logs();
    // Attempts in order; a failure line follows its attempt line.
    for line in &lines {
        if let Some(rest) = line.strip_prefix("INFO Synchronize CA '") {
            // "Synchronize CA 'x' with its parent 'y'"
            if let Some((ca, tail)) = rest.split_once('\'') {
                if let Some(parent) = quoted(tail, "with its parent ") {
                    r.ext.c19.parent_outcome.insert(
                        (ca.to_string(), parent), true
                    );
                    r.ext.c19.attempts_seen += 1;
                }
            }
        }
        else if let Some(rest) = line.strip_prefix("INFO Synchronize CA ") {
            // "Synchronize CA x with repository"
            if let Some(ca) = rest.strip_suffix(" with repository") {
                r.ext.c19.server_wiped.remove(ca);
                r.ext.c19.repo_outcome.insert(ca.to_string(), true);
                r.ext.c19.attempts_seen += 1;
            }
        }
        else if line.starts_with("ERROR Failed to synchronize CA '") {
            let ca = quoted(line, "synchronize CA ");
            let parent = quoted(line, "with its parent ");
            if let (Some(ca), Some(parent)) = (ca, parent) {
                r.ext.c19.parent_outcome.insert((ca, parent), false);
                r.ext.c19.failures_seen += 1;
            }
        }
        else if line.starts_with("ERROR Failed to publish for '") {
            if let Some(ca) = quoted(line, "publish for ") {
                r.ext.c19.repo_outcome.insert(ca, false);
                r.ext.c19.failures_seen += 1;
            }
        }
        else if line.starts_with("WARN CA '")
            && line.contains("tried to sync with parent")
        {
            // Unknown parent: no exchange took place, nothing recorded.
            let ca = quoted(line, "CA ");
            let parent = quoted(line, "sync with parent ");
            if let (Some(ca), Some(parent)) = (ca, parent) {
                r.ext.c19.parent_outcome.remove(&(ca, parent));
            }
        }
    }
}

fn inst_of(r: &Runner, ca: &str) -> usize {
    r.model.cas.values().find(|c| c.name == ca).map(|c| c.inst).unwrap_or(0)
}

fn status_json(r: &Runner, ca: &str) -> Option<Value> {
    let inst = inst_of(r, ca);
    if !r.world.inst(inst).is_up() {
        return None
    }
    hooks::with_faults_suspended(|| {
        let rt = r.world.inst(inst).rt();
        let status = rt.ca_manager().get_ca_status(&handle(ca)).ok()?;
        serde_json::to_value(&status).ok()
    })
}

fn exchange_ok(exchange: &Value) -> Option<bool> {
    let result = exchange.get("result")?;
    Some(match result {
        Value::String(s) => s.eq_ignore_ascii_case("success"),
        Value::Object(m) => {
            m.keys().next().map(|k| k.eq_ignore_ascii_case("success"))
                .unwrap_or(false)
        }
        _ => false,
    })
}

/// After every operation and every background task.
pub fn observe(r: &mut Runner, when: &str) {
    if r.dead.is_some() {
        return
    }
    absorb_logs(r);
    let cas: Vec<(String, usize)> = r.model.cas.values()
        .filter(|c| r.world.inst(c.inst).is_up())
        .map(|c| (c.name.clone(), c.inst)).collect();
    for (ca, ca_inst) in cas {
        let Some(status) = status_json(r, &ca) else { continue };
        r.ext.c19.views_checked += 1;
        let issues = hooks::with_faults_suspended(|| {
            r.world.inst(ca_inst).rt().ca_manager().get_ca_issues(&handle(&ca)).ok()
                .and_then(|i| serde_json::to_value(&i).ok())
        });
        // Parents.
        let parents = status.get("parents").and_then(|p| p.as_object())
            .cloned().unwrap_or_default();
        let current_parents: Vec<String> = hooks::with_faults_suspended(|| {
            r.world.inst(ca_inst).rt().ca_manager().get_ca(&handle(&ca)).ok()
                .map(|c| c.parents().map(|p| p.to_string()).collect())
                .unwrap_or_default()
        });
        for (parent, pstatus) in &parents {
            if !current_parents.contains(parent) {
                r.violation(
                    "C19", "status_entry_for_removed_parent",
                    format!(
                        "{when}: CA {ca} reports a status for parent \
                         {parent}, which it no longer has"
                    )
                );
                continue
            }
            let Some(expected) = r.ext.c19.parent_outcome
                .get(&(ca.clone(), parent.clone())).copied()
            else { continue };
            let shown = pstatus.get("last_exchange")
                .filter(|e| !e.is_null()).and_then(exchange_ok);
            match shown {
                Some(shown) if shown != expected => r.violation(
                    "C19", "parent_status_wrong",
                    format!(
                        "{when}: the last synchronisation of CA {ca} with \
                         parent {parent} {}, the status view shows {}",
                        if expected { "succeeded" } else { "failed" },
                        if shown { "success" } else { "a failure" }
                    )
                ),
                None => r.violation(
                    "C19", "parent_status_missing",
                    format!(
                        "{when}: CA {ca} synchronised with parent {parent} \
                         but the status view has no exchange"
                    )
                ),
                _ => { }
            }
            // The issues view says the same.
            let has_issue = issues.as_ref()
                .and_then(|i| i.get("parent_issues"))
                .and_then(|p| p.as_array())
                .map(|list| list.iter().any(|item| {
                    item.get("parent").and_then(|p| p.as_str())
                        == Some(parent.as_str())
                })).unwrap_or(false);
            if has_issue == expected {
                r.violation(
                    "C19", "parent_issue_wrong",
                    format!(
                        "{when}: the last synchronisation of CA {ca} with \
                         parent {parent} {}, the issues view {}",
                        if expected { "succeeded" } else { "failed" },
                        if has_issue { "lists an issue" } else { "lists none" }
                    )
                );
            }
        }
        // Repository.
        if let Some(expected) = r.ext.c19.repo_outcome.get(&ca).copied() {
            let shown = status.get("repo").and_then(|s| s.get("last_exchange"))
                .filter(|e| !e.is_null()).and_then(exchange_ok);
            match shown {
                Some(shown) if shown != expected => r.violation(
                    "C19", "repo_status_wrong",
                    format!(
                        "{when}: the last repository synchronisation of CA \
                         {ca} {}, the status view shows {}",
                        if expected { "succeeded" } else { "failed" },
                        if shown { "success" } else { "a failure" }
                    )
                ),
                None => r.violation(
                    "C19", "repo_status_missing",
                    format!(
                        "{when}: CA {ca} synchronised with its repository \
                         but the status view has no exchange"
                    )
                ),
                _ => { }
            }
            let has_issue = issues.as_ref()
                .and_then(|i| i.get("repo_issue"))
                .map(|i| !i.is_null()).unwrap_or(false);
            if has_issue == expected {
                r.violation(
                    "C19", "repo_issue_wrong",
                    format!(
                        "{when}: the last repository synchronisation of CA \
                         {ca} {}, the issues view {}",
                        if expected { "succeeded" } else { "failed" },
                        if has_issue { "lists an issue" } else { "lists none" }
                    )
                );
            }
        }
        // Children: entries only for children the CA has.
        let children = status.get("children").and_then(|c| c.as_object())
            .cloned().unwrap_or_default();
        let current_children: Vec<String> = hooks::with_faults_suspended(|| {
            r.world.inst(ca_inst).rt().ca_manager().get_ca(&handle(&ca)).ok()
                .map(|c| c.as_ca_info().children.iter()
                    .map(|c| c.to_string()).collect())
                .unwrap_or_default()
        });
        for child in children.keys() {
            if !current_children.contains(child) {
                r.violation(
                    "C19", "status_entry_for_removed_child",
                    format!(
                        "{when}: CA {ca} reports a status for child {child}, \
                         which it no longer has"
                    )
                );
            }
        }
    }
}

/// At quiescence: the published list is what the server holds, and every
/// child that just synchronised is on record at its (local) parent.
pub fn at_caught_up(r: &mut Runner) {
    if r.dead.is_some() {
        return
    }
    observe(r, "at quiescence");
    let cas: Vec<crate::model::MCa> = r.model.cas.values()
        .filter(|c| r.world.inst(c.inst).is_up()).cloned().collect();
    for mca in cas {
        let ca = mca.name.clone();
        let Some(status) = status_json(r, &ca) else { continue };
        if r.ext.c19.repo_outcome.get(&ca) == Some(&true)
            && !r.ext.c19.server_wiped.contains(&ca)
        {
            let mut shown: Vec<(String, String)> = status.get("repo")
                .and_then(|s| s.get("published"))
                .and_then(|p| p.as_array()).map(|list| {
                    list.iter().filter_map(|f| {
                        Some((
                            f.get("uri")?.as_str()?.to_string(),
                            sha256_hex(f.get("base64")?.as_str()?.as_bytes()),
                        ))
                    }).collect()
                }).unwrap_or_default();
            shown.sort();
            let held: Option<Vec<(String, String)>>
                = hooks::with_faults_suspended(|| {
                    if !r.world.inst(mca.repo_inst).is_up() {
                        return None
                    }
                    let rt = r.world.inst(mca.repo_inst).rt();
                    let details = rt.repo_manager().get_publisher_details(
                        PublisherHandle::from_str(&ca).ok()?
                    ).ok()?;
                    let mut v: Vec<(String, String)> = details.current_files
                        .iter().map(|f| (
                            f.uri.to_string(),
                            sha256_hex(f.base64.to_string().as_bytes()),
                        )).collect();
                    v.sort();
                    Some(v)
                });
            if let Some(held) = held {
                if held != shown {
                    let first = held.iter().find(|x| !shown.contains(x))
                        .or_else(|| shown.iter().find(|x| !held.contains(x)))
                        .map(|x| x.0.clone()).unwrap_or_default();
                    r.violation(
                        "C19", "published_list_differs",
                        format!(
                            "CA {ca}: the status view lists {} published \
                             objects, the server holds {} (first \
                             difference: {first})", shown.len(), held.len()
                        )
                    );
                }
            }
        }
        // The parent's record of this child.
        for (phandle, link) in &mca.parents {
            if link.parent_ca == "ta"
                || !r.world.inst(link.parent_inst).is_up()
            {
                continue
            }
            // Only while the parent still has the child: removing it
            // removes its record, and the child's success predates that.
            if r.model.child_at(
                link.parent_inst, &link.parent_ca, &link.child_handle
            ).is_none() {
                r.ext.c19.parent_outcome.remove(&(ca.clone(), phandle.clone()));
                continue
            }
            if r.ext.c19.parent_outcome.get(&(ca.clone(), phandle.clone()))
                != Some(&true)
            {
                continue
            }
            let Some(pstatus) = status_json(r, &link.parent_ca) else {
                continue
            };
            let entry = pstatus.get("children")
                .and_then(|c| c.get(&link.child_handle));
            let ok = entry.and_then(|e| e.get("last_exchange"))
                .filter(|e| !e.is_null()).and_then(exchange_ok);
            if ok != Some(true) && std::env::var_os("VERIF_DEBUG").is_some() {
                let keys: Vec<String> = pstatus.as_object()
                    .map(|m| m.keys().cloned().collect()).unwrap_or_default();
                eprintln!(
                    "--- parent {} status keys {keys:?} children {:?} \
                     child handle {} ; child ca {ca}",
                    link.parent_ca,
                    pstatus.get("children").map(|c| c.to_string().chars().take(300).collect::<String>()),
                    link.child_handle
                );
            }
            if ok != Some(true) {
                r.violation(
                    "C19", "child_status_wrong",
                    format!(
                        "CA {ca} synchronised successfully with parent {} \
                         but the parent's record of child {} shows {:?}",
                        link.parent_ca, link.child_handle, ok
                    )
                );
            }
        }
    }
}

/// The CA is gone: so must be its status.
pub fn after_delete(r: &mut Runner, ca: &str) {
    let inst = r.ext.c19_deleted_inst.take().unwrap_or(0);
    let gone = !r.world.inst(inst).is_up() || hooks::with_faults_suspended(|| {
        r.world.inst(inst).rt().ca_manager().get_ca_status(&handle(ca)).is_err()
    });
    r.ext.c19.repo_outcome.remove(ca);
    r.ext.c19.parent_outcome.retain(|k, _| k.0 != ca);
    if !gone {
        r.violation(
            "C19", "status_of_deleted_ca",
            format!("CA {ca} was deleted but still has a status")
        );
    }
}


//------------ Entitlements ---------------------------------------------------

/// Before every background task: which CAs have open requests for which
/// parent. A synchronisation of a CA with open requests sends those; one
/// without asks the parent for the entitlements.
pub fn before_step(r: &mut Runner) {
    let cas: Vec<crate::model::MCa> = r.model.cas.values()
        .filter(|c| r.world.inst(c.inst).is_up()).cloned().collect();
    let mut pending = BTreeMap::new();
    hooks::with_faults_suspended(|| {
        for mca in &cas {
            let rt = r.world.inst(mca.inst).rt();
            let Ok(ca) = rt.ca_manager().get_ca(&handle(&mca.name)) else {
                continue
            };
            for parent in ca.parents() {
                pending.insert(
                    (mca.name.clone(), parent.to_string()),
                    ca.has_pending_requests(parent),
                );
            }
        }
    });
    r.ext.c19.pending_before = pending;
    // What the status views show right now.
    let mut shown = BTreeMap::new();
    for mca in &cas {
        let Some(status) = status_json(r, &mca.name) else { continue };
        if let Some(parents) = status.get("parents").and_then(|p| p.as_object()) {
            for (parent, pstatus) in parents {
                shown.insert(
                    (mca.name.clone(), parent.clone()),
                    classes_sorted(pstatus.get("classes")),
                );
            }
        }
    }
    r.ext.c19.classes_shown = shown;
}

fn classes_sorted(value: Option<&Value>) -> Value {
    let mut list = value.and_then(|v| v.as_array()).cloned()
        .unwrap_or_default();
    list.sort_by_key(|c| {
        c.get("class_name").map(|n| n.to_string()).unwrap_or_default()
    });
    Value::Array(list)
}

/// After a background task (`task` is its storage key): if it was a
/// synchronisation with a parent that asked for the entitlements and
/// succeeded, the status view must show exactly what that parent returns
/// for this child; if it failed or sent requests, the entitlements shown
/// must be the ones shown before.
pub fn entitlements_after_task(r: &mut Runner, task: &str, ran_on: usize) {
    if r.dead.is_some() {
        return
    }
    let Some(name) = task.split_once('-').map(|x| x.1) else { return };
    let Some(rest) = name.strip_prefix("sync_") else { return };
    let Some((ca, parent)) = rest.split_once("_with_parent_") else { return };
    let (ca, parent) = (ca.to_string(), parent.to_string());
    let key = (ca.clone(), parent.clone());
    let Some(mca) = r.model.cas.values().find(|c| c.name == ca).cloned()
    else { return };
    if mca.inst != ran_on {
        // The parent's instance queues a synchronisation for every child
        // whose entitlements it changes; for a child hosted elsewhere
        // that task does nothing.
        return
    }
    let Some(status) = status_json(r, &ca) else { return };
    let shown = classes_sorted(
        status.get("parents").and_then(|p| p.get(&parent))
            .and_then(|p| p.get("classes"))
    );
    let before = r.ext.c19.classes_shown.get(&key).cloned();
    let outcome = r.ext.c19.parent_outcome.get(&key).copied();
    let had_pending = r.ext.c19.pending_before.get(&key).copied();
    let has_parent = status.get("parents").and_then(|p| p.get(&parent))
        .is_some();
    if std::env::var_os("VERIF_DEBUG").is_some() {
        eprintln!(
            "--- c19 after {name}: outcome {outcome:?} had_pending \
             {had_pending:?} shown {} exchange {:?}",
            brief(&shown),
            status.get("parents").and_then(|p| p.get(&parent))
                .and_then(|p| p.get("last_exchange")).map(|e| e.to_string())
        );
    }
    if !has_parent {
        r.ext.c19.classes_shown.remove(&key);
        return
    }
    match (outcome, had_pending) {
        (Some(true), Some(false)) => {
            // Asked for the entitlements and got them.
            let Some(link) = mca.parents.get(&parent) else { return };
            if link.parent_ca == "ta"
                || !r.world.inst(link.parent_inst).is_up()
            {
                r.ext.c19.classes_shown.insert(key, shown);
                return
            }
            let pinst = link.parent_inst;
            r.world.inst(pinst).enter();
            let expected = hooks::with_faults_suspended(|| {
                let rt = r.world.inst(pinst).rt();
                let pca = rt.ca_manager().get_ca(&handle(&link.parent_ca))
                    .ok()?;
                let child = rpki::ca::idexchange::ChildHandle::from_str(
                    &link.child_handle
                ).ok()?;
                let resp = pca.list(&child, &rt.config().issuance_timing)
                    .ok()?;
                serde_json::to_value(resp.classes()).ok()
            });
            r.world.inst(ran_on).enter();
            // The summary of all resources received from this parent is
            // the union of the classes; judged where there is one class
            // (the union of overlapping classes is not normalised by
            // rpki-rs, see the known findings).
            if let Some(list) = shown.as_array() {
                if list.len() <= 1 {
                    let all = status.get("parents").and_then(|p| p.get(&parent))
                        .and_then(|p| p.get("all_resources")).cloned()
                        .unwrap_or(Value::Null);
                    let class_res = list.first()
                        .and_then(|c| c.get("resource_set")).cloned()
                        .unwrap_or_else(|| serde_json::json!({
                            "asn": "", "ipv4": "", "ipv6": ""
                        }));
                    if all != class_res {
                        r.violation(
                            "C19", "all_resources_differ",
                            format!(
                                "after task {name}: the status of CA {ca} \
                                 for parent {parent} summarises the \
                                 resources received as {all} while the \
                                 entitlements it shows are {}",
                                brief(&shown)
                            )
                        );
                    }
                }
            }
            if let Some(expected) = expected {
                let expected = classes_sorted(Some(&expected));
                r.ext.c19.entitlement_checks += 1;
                if expected != shown {
                    r.violation(
                        "C19", "entitlements_shown_differ",
                        format!(
                            "after task {name}: CA {ca} asked parent \
                             {parent} for its entitlements and the \
                             exchange succeeded; the parent returns {} \
                             but the status view shows {}",
                            brief(&expected), brief(&shown)
                        )
                    );
                }
            }
        }
        (Some(false), _) | (Some(true), Some(true)) => {
            // A failed attempt, or one that only sent the open requests:
            // the entitlements shown are still the ones last returned.
            if let Some(before) = before {
                r.ext.c19.entitlement_checks += 1;
                if before != shown {
                    r.violation(
                        "C19", "entitlements_shown_changed",
                        format!(
                            "after task {name}: CA {ca} did not receive \
                             entitlements from parent {parent} in this \
                             exchange ({}), yet the entitlements in the \
                             status view changed from {} to {}",
                            if outcome == Some(false) { "it failed" }
                            else { "it sent open requests" },
                            brief(&before), brief(&shown)
                        )
                    );
                }
            }
        }
        _ => { }
    }
    r.ext.c19.classes_shown.insert(key, shown);
}

/// Class names and resources, for messages.
fn brief(classes: &Value) -> String {
    let items: Vec<String> = classes.as_array().map(|list| {
        list.iter().map(|c| format!(
            "{}:{} ({} issued, until {})",
            c.get("class_name").and_then(|n| n.as_str()).unwrap_or("?"),
            c.get("resource_set").map(|r| r.to_string()).unwrap_or_default(),
            c.get("issued_certs").and_then(|i| i.as_array())
                .map(|i| i.len()).unwrap_or(0),
            c.get("not_after").map(|r| r.to_string()).unwrap_or_default(),
        )).collect()
    }).unwrap_or_default();
    format!("[{}]", items.join("; "))
}
