//! C11: RRDP and rsync views are consistent for every client at every
//! instant.
//!
//! The oracle is a simulated client population (`served::ClientMemory`)
//! that looks at the served files after every API operation and after every
//! single background task.

use crate::history::Runner;
use crate::hooks;
use crate::served::{self, ClientMemory, ObjSet};
use crate::util::sha256_hex;

#[derive(Clone, Debug, Default)]
pub struct State {
    pub mem: ClientMemory,
    /// An explicit session reset happened since the last observation.
    pub reset_expected: bool,
    /// The retention configuration changed at this serial; the bound on
    /// the number of deltas applies from the next update on.
    pub cfg_changed_at: Option<(String, u64)>,
    pub last: Option<(String, u64)>,
    pub resets: u64,
    pub rsync_compared: u64,
    pub content_compared: u64,
}

/// What the repository manager holds for all publishers.
pub fn content(r: &Runner) -> Option<ObjSet> {
    hooks::with_faults_suspended(|| {
        let inst = r.world.inst(0);
        if !inst.is_up() {
            return None
        }
        inst.enter();
        let rt = inst.rt();
        if !rt.repo_manager().is_initialized().unwrap_or(false) {
            return None
        }
        let mut content = ObjSet::new();
        for publisher in rt.repo_manager().publishers().ok()? {
            let details = rt.repo_manager().get_publisher_details(publisher)
                .ok()?;
            for file in details.current_files {
                content.insert(
                    file.uri.to_string(), sha256_hex(&file.base64.to_bytes())
                );
            }
        }
        Some(content)
    })
}

/// Problems of the served files as they are right now. Returns `None` if
/// there is no repository.
pub fn instant_problems(r: &mut Runner) -> Option<Vec<(String, String)>> {
    let (repo_dir, base_uri, jail, max_nr, min_seconds, min_nr) = {
        let inst = r.world.inst(0);
        if !inst.is_up() {
            return None
        }
        (
            inst.repo_dir(), inst.cfg.rrdp_base_uri(), inst.cfg.rsync_jail(),
            inst.cfg.rrdp.max_nr, inst.cfg.rrdp.min_seconds as i64,
            inst.cfg.rrdp.min_nr,
        )
    };
    if !repo_dir.join("rrdp").join("notification.xml").exists()
        && !repo_dir.join("rrdp").exists()
    {
        return None
    }
    let mut out = Vec::new();
    let (view, problems) = match served::fetch_rrdp(&repo_dir, &base_uri) {
        Ok(x) => x,
        Err(err) => {
            out.push(("notification_unusable".to_string(), err));
            return Some(out)
        }
    };
    for p in problems {
        out.push(("rrdp_files_inconsistent".to_string(), p));
    }
    let state = &mut r.ext.c11;
    // Serial arithmetic.
    if let Some((session, serial)) = &state.last {
        if *session == view.session && view.serial > serial + 1 {
            out.push((
                "serial_jump".to_string(),
                format!(
                    "the serial went from {serial} to {} in one step",
                    view.serial
                )
            ));
        }
    }
    let bound = match &state.cfg_changed_at {
        Some((session, serial))
            if *session == view.session && *serial == view.serial
        => usize::MAX,
        _ => max_nr,
    };
    if bound != usize::MAX {
        state.cfg_changed_at = None;
    }
    let reset = std::mem::take(&mut state.reset_expected);
    let now = crate::seams::now_secs();
    for p in state.mem.observe(&view, reset, bound, min_nr, min_seconds, now) {
        let rule = if p.contains("covered by the minimum rules") {
            "delta_count_exceeds_max_by_min_rules"
        }
        else if p.contains("deltas are retained") {
            "delta_count_exceeds_max"
        }
        else if p.contains("cannot follow the deltas")
            || p.contains("does not arrive at the snapshot")
        {
            "client_cannot_catch_up"
        }
        else if p.contains("session") {
            "session_rule_broken"
        }
        else {
            "serial_or_content_rule_broken"
        };
        out.push((rule.to_string(), p));
    }
    state.last = Some((view.session.clone(), view.serial));

    // rsync tree == snapshot.
    match served::fetch_rsync(&repo_dir, &jail) {
        Ok(tree) => {
            if repo_dir.join("rsync").join("current").exists() {
                state.rsync_compared += 1;
                if let Some(d) = served::diff(
                    "the rsync tree", &tree, "the RRDP snapshot",
                    &view.snapshot
                ) {
                    out.push((
                        "rsync_differs_from_snapshot".to_string(),
                        format!("at serial {}: {d}", view.serial)
                    ));
                }
            }
        }
        Err(err) => out.push(("rsync_unreadable".to_string(), err)),
    }
    Some(out)
}

/// After every operation and every background task.
pub fn observe(r: &mut Runner, when: &str) {
    if r.dead.is_some() {
        return
    }
    if let Some(problems) = instant_problems(r) {
        for (rule, detail) in problems {
            r.violation("C11", &rule, format!("{when}: {detail}"));
        }
    }
}

/// At quiescence the snapshot is the repository content.
pub fn at_caught_up(r: &mut Runner) {
    let Some(content) = content(r) else { return };
    let (repo_dir, base_uri) = {
        let inst = r.world.inst(0);
        (inst.repo_dir(), inst.cfg.rrdp_base_uri())
    };
    let Ok((view, _)) = served::fetch_rrdp(&repo_dir, &base_uri) else {
        return
    };
    r.ext.c11.content_compared += 1;
    if let Some(d) = served::diff(
        "the repository content", &content, "the RRDP snapshot",
        &view.snapshot
    ) {
        r.violation(
            "C11", "snapshot_differs_from_content",
            format!("at quiescence, serial {}: {d}", view.serial)
        );
    }
}

pub fn note_session_reset(r: &mut Runner) {
    r.ext.c11.reset_expected = true;
    r.ext.c11.resets += 1;
}

pub fn note_config_change(r: &mut Runner) {
    r.ext.c11.cfg_changed_at = r.ext.c11.last.clone();
}
