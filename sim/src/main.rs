//! krill-sim: deterministic simulation of Krill with fault injection.
#![allow(dead_code)]

mod hooks;
mod rng;
mod rp;
mod sched;
mod seams;
mod sim;
mod util;
mod world;

use std::collections::BTreeSet;
use std::path::PathBuf;

fn smoke(seed: u64) -> Result<String, String> {
    let base = world::make_run_dir(seed, "smoke");
    hooks::state().reset_for_run(&base, true);
    seams::set_seed(seed);
    seams::set_thread_stream(0);
    seams::enable(true);
    let mut w = sim::World::new(&base, 1_767_225_600); // 2026-01-01
    let a = w.add_instance(world::InstCfg::basic("a"));
    w.insts[a].start()?;
    let t0 = std::time::Instant::now();
    println!("pump0: {:?}", w.pump(600, 40));
    w.create_ca(a, "ca1")?;
    w.setup_repo(a, "ca1", a)?;
    w.add_child(
        a, "testbed", a, "ca1", "ca1", "testbed",
        &sim::resources("AS65000-AS65010", "10.0.0.0/16", "2001:db8::/32")
    )?;
    println!("pump1: {:?}", w.pump(600, 40));
    w.roa_update(a, "ca1", &["10.0.0.0/24 => 65000", "10.0.1.0/24-24 => 65001"], &[])?;
    println!("pump2: {:?}", w.pump(600, 40));
    let res = w.rp_walk(a, &BTreeSet::new())?;
    println!("accepted={} vrps={:?} issues={:?}", res.accepted.len(), res.vrps, res.issues);
    println!("elapsed {:?}", t0.elapsed());
    let st = hooks::state();
    let fp = util::sha256_hex(st.trace.join("\n").as_bytes());
    println!("trace lines {} keys {} fp {}", st.trace.len(), st.key_cursor, fp);
    drop(st);
    drop(w);
    world::remove_run_dir(&base);
    Ok(fp)
}

fn main() {
    world::install_panic_hook();
    let keypool = PathBuf::from(
        std::env::var("VERIF_KEYPOOL")
            .unwrap_or_else(|_| "/verif/keypool/keys.pem".into())
    );
    hooks::install(&keypool);
    let args: Vec<String> = std::env::args().collect();
    let seed = util::env_u64("VERIF_SEED", 1);
    match args.get(1).map(|s| s.as_str()) {
        Some("smoke") => {
            let res = std::thread::spawn(move || smoke(seed)).join().unwrap();
            println!("{res:?}");
        }
        _ => {
            eprintln!("usage: krill-sim smoke");
            std::process::exit(2);
        }
    }
    world::remove_process_dir();
}
