//! krill-sim: deterministic simulation of Krill with fault injection.
#![allow(dead_code)]

mod c02;
mod c03;
mod c04;
mod c06;
mod c07f;
mod c09;
mod c10;
mod c11;
mod c12;
mod c14;
mod c15;
mod c15h;
mod c16;
mod c19;
mod check;
mod conc;
mod cuts;
mod history;
mod hooks;
mod model;
mod net;
mod objsets;
mod ops;
mod oracles;
mod profiles;
mod rng;
mod rp;
mod runs;
mod sched;
mod seams;
mod served;
mod sim;
mod util;
mod world;

use std::path::PathBuf;

fn usage() -> ! {
    eprintln!(
        "usage: krill-sim check <PROP> <quick|thorough>\n\
         \x20      krill-sim worker <profile> <first-seed> <count> <stride>\n\
         \x20      krill-sim run <profile> <seed>\n\
         \x20      krill-sim replay <file>\n\
         \x20      krill-sim determinism <profile> <first-seed> <count>"
    );
    std::process::exit(2);
}

/// Krill's log output: printed on stderr for debugging
/// (VERIF_KRILL_LOG=<level>) and/or captured for the C19 oracle, which
/// derives the outcome of every synchronisation attempt from it.
struct KrillLog;

pub static LOG_CAPTURE: std::sync::atomic::AtomicBool
    = std::sync::atomic::AtomicBool::new(false);
static LOG_PRINT: std::sync::atomic::AtomicBool
    = std::sync::atomic::AtomicBool::new(false);
pub static LOG_LINES: std::sync::Mutex<Vec<String>>
    = std::sync::Mutex::new(Vec::new());

impl log::Log for KrillLog {
    fn enabled(&self, meta: &log::Metadata) -> bool {
        meta.target().starts_with("krill")
    }
    fn log(&self, record: &log::Record) {
        use std::sync::atomic::Ordering;
        if !self.enabled(record.metadata()) {
            return
        }
        if LOG_PRINT.load(Ordering::Relaxed) {
            eprintln!("    LOG {} {}", record.level(), record.args());
        }
        if LOG_CAPTURE.load(Ordering::Relaxed)
            && record.level() <= log::Level::Info
        {
            let mut lines = LOG_LINES.lock().unwrap_or_else(|e| e.into_inner());
            if lines.len() < 20_000 {
                lines.push(format!("{} {}", record.level(), record.args()));
            }
        }
    }
    fn flush(&self) { }
}

/// Starts (or stops) capturing Krill's log lines of level info and above.
pub fn capture_logs(on: bool) {
    use std::sync::atomic::Ordering;
    LOG_CAPTURE.store(on, Ordering::SeqCst);
    LOG_LINES.lock().unwrap_or_else(|e| e.into_inner()).clear();
    if on {
        if log::max_level() < log::LevelFilter::Info {
            log::set_max_level(log::LevelFilter::Info);
        }
    }
    else if !LOG_PRINT.load(Ordering::Relaxed) {
        log::set_max_level(log::LevelFilter::Off);
    }
}

pub fn drain_logs() -> Vec<String> {
    std::mem::take(&mut *LOG_LINES.lock().unwrap_or_else(|e| e.into_inner()))
}

fn main() {
    world::install_panic_hook();
    {
        static LOGGER: KrillLog = KrillLog;
        let _ = log::set_logger(&LOGGER);
        log::set_max_level(log::LevelFilter::Off);
    }
    if let Ok(level) = std::env::var("VERIF_KRILL_LOG") {
        if let Ok(level) = level.parse::<log::LevelFilter>() {
            LOG_PRINT.store(true, std::sync::atomic::Ordering::SeqCst);
            log::set_max_level(level);
        }
    }
    let keypool = PathBuf::from(
        std::env::var("VERIF_KEYPOOL")
            .unwrap_or_else(|_| "/verif/keypool/keys.pem".into())
    );
    hooks::install(&keypool);
    let args: Vec<String> = std::env::args().collect();
    let code = match args.get(1).map(|s| s.as_str()) {
        Some("check") => {
            if args.len() < 4 { usage() }
            check::check(&args[2], &args[3])
        }
        Some("worker") => {
            if args.len() < 6 { usage() }
            check::worker(
                &args[2],
                args[3].parse().unwrap_or_else(|_| usage()),
                args[4].parse().unwrap_or_else(|_| usage()),
                args[5].parse().unwrap_or_else(|_| usage()),
            )
        }
        Some("run") => {
            if args.len() < 4 { usage() }
            check::run_one(&args[2], args[3].parse().unwrap_or_else(|_| usage()))
        }
        Some("replay") => {
            if args.len() < 3 { usage() }
            check::replay(&args[2])
        }
        Some("determinism") => {
            if args.len() < 5 { usage() }
            check::determinism(
                &args[2],
                args[3].parse().unwrap_or_else(|_| usage()),
                args[4].parse().unwrap_or_else(|_| usage()),
            )
        }
        _ => usage()
    };
    world::remove_process_dir();
    std::process::exit(code);
}
