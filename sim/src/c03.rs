//! C03: whatever is revoked, removed or replaced is withdrawn and stays on
//! the CRL (O-CRL, a ledger of every certificate / signed object ever seen).

use std::collections::BTreeMap;
use rpki::crypto::KeyIdentifier;
use rpki::repository::x509::{Serial, Time};
use crate::history::Runner;
use crate::rp::RpResult;

#[derive(Clone, Debug)]
pub struct Entry {
    pub uri: String,
    pub not_after: Time,
    pub current: bool,
    pub first_step: usize,
    pub ended_step: usize,
}

#[derive(Default)]
pub struct State {
    pub last_entitlement_change: usize,
    pub ledger: BTreeMap<(KeyIdentifier, Serial), Entry>,
    pub ended_total: u64,
    pub crl_checks: u64,
}

pub fn instant(_r: &mut Runner) { }
pub fn after_task(_r: &mut Runner) { }

pub fn at_caught_up(r: &mut Runner, _repo_inst: usize, rpres: &RpResult) {
    let now = Time::now();
    let step = r.step;
    // What is in the validated tree now.
    let mut present: BTreeMap<(KeyIdentifier, Serial), (&str, Time, bool)>
        = BTreeMap::new();
    for obj in &rpres.seen {
        if obj.is_manifest {
            continue
        }
        present.insert(
            (obj.issuer_key, obj.serial),
            (obj.uri.as_str(), obj.not_after, obj.accepted)
        );
    }
    // New and continuing entries.
    for (key, (uri, not_after, _accepted)) in &present {
        let entry = r.ext.c03.ledger.entry(*key).or_insert_with(|| Entry {
            uri: uri.to_string(),
            not_after: *not_after,
            current: true,
            first_step: step,
            ended_step: 0,
        });
        entry.current = true;
    }
    // Entries that stopped being current.
    let mut ended_now = Vec::new();
    for (key, entry) in r.ext.c03.ledger.iter_mut() {
        if entry.current && !present.contains_key(key) {
            entry.current = false;
            entry.ended_step = step;
            ended_now.push(*key);
        }
    }
    r.ext.c03.ended_total += ended_now.len() as u64;
    // Everything that is not current, has not expired, and whose issuing
    // key still publishes a CRL must be on that CRL.
    let mut problems = Vec::new();
    for ((issuer, serial), entry) in r.ext.c03.ledger.iter() {
        if entry.current || entry.not_after <= now {
            continue
        }
        let Some(pp) = rpres.pub_point(issuer) else { continue };
        r.ext.c03.crl_checks += 1;
        if !pp.crl.contains(*serial) {
            problems.push(format!(
                "{} (serial {serial}, issuer key {issuer}) stopped being \
                 current at step {} but is not on the issuer's CRL {} \
                 (CRL number {})",
                entry.uri, entry.ended_step, pp.crl_uri, pp.crl_number
            ));
        }
    }
    // Objects that are still in the repository although revoked.
    for obj in &rpres.seen {
        if obj.is_manifest || obj.accepted {
            continue
        }
        if let Some(pp) = rpres.pub_point(&obj.issuer_key) {
            if pp.crl.contains(obj.serial) {
                problems.push(format!(
                    "{} is on its issuer's CRL but still published",
                    obj.uri
                ));
            }
        }
    }
    if !ended_now.is_empty() {
        r.stat("c03.objects_ended");
    }
    if let Some(p) = problems.into_iter().next() {
        let rule = if p.contains("still published") {
            "revoked_still_published"
        } else {
            "not_on_crl"
        };
        r.violation("C03", rule, p);
    }
}
