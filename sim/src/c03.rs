use crate::history::Runner;
use crate::rp::RpResult;

#[derive(Default)]
pub struct State {
    pub last_entitlement_change: usize,
}

pub fn instant(_r: &mut Runner) { }
pub fn after_task(_r: &mut Runner) { }
pub fn at_caught_up(_r: &mut Runner, _repo_inst: usize, _rpres: &RpResult) { }
