//! C03: whatever is revoked, removed or replaced is withdrawn and stays on
//! the CRL (O-CRL, a ledger of every certificate / signed object ever seen).

use std::collections::BTreeMap;
use rpki::crypto::KeyIdentifier;
use rpki::repository::x509::{Serial, Time};
use crate::history::Runner;
use crate::rp::RpResult;

#[derive(Clone, Debug)]
pub struct Entry {
    pub uri: String,
    pub not_after: Time,
    pub current: bool,
    pub first_step: usize,
    pub ended_step: usize,
    /// Seen on its issuer's published CRL at some quiescence.
    pub confirmed: bool,
}

#[derive(Default)]
pub struct State {
    pub last_entitlement_change: usize,
    pub ledger: BTreeMap<(KeyIdentifier, Serial), Entry>,
    pub ended_total: u64,
    pub crl_checks: u64,
}

pub fn instant(r: &mut Runner) {
    stored_crls(r, "after the operation");
}

pub fn after_task(r: &mut Runner) {
    stored_crls(r, "after a background task");
}

/// "... stays on the CRL for as long as that key publishes a CRL": every
/// serial that was confirmed on its issuer's CRL must be on every later CRL
/// of that key - also on the ones a CA holds in its stored object set
/// between two synchronisations (e.g. the CRL of the old key during a key
/// roll), until the object expires.
fn stored_crls(r: &mut Runner, when: &str) {
    if !r.ext.c03.ledger.values().any(|e| e.confirmed) {
        return
    }
    let now = Time::now();
    let cas: Vec<(usize, String)> = r.model.cas.values()
        .map(|c| (c.inst, c.name.clone())).collect();
    let mut problems = Vec::new();
    for (inst, name) in cas {
        if !r.world.inst(inst).is_up() {
            continue
        }
        let classes = crate::hooks::with_faults_suspended(|| {
            crate::objsets::read(r.world.inst(inst).rt(), &name)
        });
        for class in &classes {
            for set in &class.sets {
                let Ok(crl) = rpki::repository::crl::Crl::decode(
                    set.crl.as_slice()
                ) else { continue };
                for ((issuer, serial), entry) in r.ext.c03.ledger.iter() {
                    if !entry.confirmed || entry.current
                        || entry.not_after <= now
                        || issuer.to_string() != set.key_id
                    {
                        continue
                    }
                    r.ext.c03.crl_checks += 1;
                    if !crl.contains(*serial) {
                        problems.push(format!(
                            "{when}: {} (serial {serial}) was on the CRL of \
                             key {issuer} of CA {name} and has not expired, \
                             but the {} CRL (number {}) the CA now holds \
                             for that key no longer lists it",
                            entry.uri, set.role, set.number
                        ));
                    }
                }
            }
        }
    }
    if let Some(p) = problems.into_iter().next() {
        r.violation("C03", "dropped_from_crl", p);
    }
}

pub fn at_caught_up(r: &mut Runner, _repo_inst: usize, rpres: &RpResult) {
    let now = Time::now();
    let step = r.step;
    // What is in the validated tree now.
    let mut present: BTreeMap<(KeyIdentifier, Serial), (&str, Time, bool)>
        = BTreeMap::new();
    for obj in &rpres.seen {
        if obj.is_manifest {
            continue
        }
        present.insert(
            (obj.issuer_key, obj.serial),
            (obj.uri.as_str(), obj.not_after, obj.accepted)
        );
    }
    // New and continuing entries.
    for (key, (uri, not_after, _accepted)) in &present {
        let entry = r.ext.c03.ledger.entry(*key).or_insert_with(|| Entry {
            uri: uri.to_string(),
            not_after: *not_after,
            current: true,
            first_step: step,
            ended_step: 0,
            confirmed: false,
        });
        entry.current = true;
    }
    // Entries that stopped being current.
    let mut ended_now = Vec::new();
    for (key, entry) in r.ext.c03.ledger.iter_mut() {
        if entry.current && !present.contains_key(key) {
            entry.current = false;
            entry.ended_step = step;
            ended_now.push(*key);
        }
    }
    r.ext.c03.ended_total += ended_now.len() as u64;
    // Everything that is not current, has not expired, and whose issuing
    // key still publishes a CRL must be on that CRL.
    let mut problems = Vec::new();
    let mut confirmed = Vec::new();
    for ((issuer, serial), entry) in r.ext.c03.ledger.iter() {
        if entry.current || entry.not_after <= now {
            continue
        }
        let Some(pp) = rpres.pub_point(issuer) else { continue };
        r.ext.c03.crl_checks += 1;
        if pp.crl.contains(*serial) {
            confirmed.push((*issuer, *serial));
        }
        if !pp.crl.contains(*serial) {
            problems.push(format!(
                "{} (serial {serial}, issuer key {issuer}) stopped being \
                 current at step {} but is not on the issuer's CRL {} \
                 (CRL number {})",
                entry.uri, entry.ended_step, pp.crl_uri, pp.crl_number
            ));
        }
    }
    for key in confirmed {
        if let Some(entry) = r.ext.c03.ledger.get_mut(&key) {
            entry.confirmed = true;
        }
    }
    // Objects that are still in the repository although revoked.
    for obj in &rpres.seen {
        if obj.is_manifest || obj.accepted {
            continue
        }
        if let Some(pp) = rpres.pub_point(&obj.issuer_key) {
            if pp.crl.contains(obj.serial) {
                problems.push(format!(
                    "{} is on its issuer's CRL but still published",
                    obj.uri
                ));
            }
        }
    }
    // A key the child has retired (roll finished, class dropped) must not
    // stay in use at its parent: "a revocation request that the parent
    // answers positively always has this effect".
    if r.world.insts.len() == 1 {
        for detail in crate::c09::stale_child_keys(r) {
            problems.push(format!("revocation had no effect: {detail}"));
        }
    }
    if !ended_now.is_empty() {
        r.stat("c03.objects_ended");
    }
    if let Some(p) = problems.into_iter().next() {
        let rule = if p.contains("still published") {
            "revoked_still_published"
        } else if p.contains("revocation had no effect") {
            "revocation_without_effect"
        } else {
            "not_on_crl"
        };
        r.violation("C03", rule, p);
    }
}
