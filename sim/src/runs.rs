//! Running one seeded history from start to end, replaying, minimising.

use std::collections::BTreeMap;
use serde::{Deserialize, Serialize};
use crate::history::{Oracles, Runner, Violation};
use crate::hooks;
use crate::ops::{GenCfg, Op};
use crate::rng::Rng;
use crate::seams;
use crate::sim::World;
use crate::world::{self, guarded, Guarded};

pub const START_SECS: i64 = 1_767_225_600; // 2026-01-01T00:00:00Z

#[derive(Clone, Debug)]
pub struct Profile {
    pub name: &'static str,
    pub oracles: Oracles,
    pub gen_cfg: GenCfg,
    pub min_ops: usize,
    pub max_ops: usize,
    pub wide_timing: bool,
    pub force_disk: bool,
    /// Run the C06 rebuild comparison at the end and at snapshots.
    pub rebuild_checks: bool,
    /// Draw the RRDP retention configuration per run (C11).
    pub rrdp_swarm: bool,
    /// A second instance (no trust anchor, no repository) whose CAs have
    /// their parents and their repository on the first one, reached over
    /// the simulated network with these fault rates.
    pub net: Option<crate::net::NetCfg>,
}

#[derive(Clone, Debug, Default, Serialize, Deserialize)]
pub struct RunReport {
    pub profile: String,
    pub seed: u64,
    pub fingerprint: String,
    pub ops: Vec<Op>,
    pub results: Vec<String>,
    pub violations: Vec<Violation>,
    pub stats: BTreeMap<String, u64>,
    pub fired: BTreeMap<String, u64>,
    pub probes: BTreeMap<String, u64>,
    pub sim_secs: i64,
    pub kv_mutations: u64,
    pub fs_mutations: u64,
    pub caught_up_checks: u64,
    pub state_changing_ops: u64,
    pub tasks_run: u64,
    pub wall_ms: u64,
    pub harness_error: Option<String>,
    pub config: String,
    /// Distinct cases covered by this evaluation when it is made of several
    /// (cut-point enumeration: operation kind | mutation site | variant).
    #[serde(default)]
    pub extra_sites: Vec<String>,
    /// The scheduler's decision list (concurrency runs).
    #[serde(default)]
    pub extra_decisions: Vec<u16>,
}

impl RunReport {
    pub fn nontrivial(&self) -> bool {
        self.state_changing_ops > 0 && self.caught_up_checks > 0
    }
}

/// Everything about a run that is drawn from the seed before the first
/// operation.
pub fn draw_world(
    seed: u64, profile: &Profile, base: &std::path::Path,
) -> (World, Rng, usize) {
    let root = Rng::new(seed);
    let mut cfg_rng = root.fork("config");
    let mut cfg = world::draw_inst_cfg("a", &mut cfg_rng, profile.wide_timing);
    cfg.disk = profile.force_disk || cfg_rng.chance(1, 2);
    let n_ops = profile.min_ops
        + cfg_rng.usize(profile.max_ops - profile.min_ops + 1);
    if profile.rrdp_swarm {
        let mut rrdp_rng = root.fork("rrdp");
        let (min_nr, max_nr, min_seconds, max_seconds, interval)
            = crate::ops::draw_rrdp_retention(&mut rrdp_rng);
        cfg.rrdp.min_nr = min_nr;
        cfg.rrdp.max_nr = max_nr;
        cfg.rrdp.min_seconds = min_seconds;
        cfg.rrdp.max_seconds = max_seconds;
        cfg.rrdp.interval_min_seconds = interval;
        cfg.rrdp.archive = rrdp_rng.chance(1, 4);
        cfg.disk = cfg.disk || rrdp_rng.chance(1, 2);
    }
    let mut w = World::new(base, START_SECS);
    let cfg_a = cfg.clone();
    w.add_instance(cfg);
    if profile.net.is_some() {
        let mut net_rng = root.fork("net-config");
        let mut cfg_b = world::draw_inst_cfg(
            "b", &mut net_rng, profile.wide_timing
        );
        cfg_b.testbed = false;
        cfg_b.disk = cfg_a.disk || profile.gen_cfg.w_partition > 0;
        cfg_b.timing = cfg_a.timing.clone();
        let idx = w.add_instance(cfg_b);
        w.insts[idx].skew_secs = *net_rng.pick(&[-120i64, -5, 0, 0, 5, 120]);
    }
    (w, root.fork("ops"), n_ops)
}

/// Runs one history. If `replay` is given, its operations are executed
/// instead of generated ones.
pub fn run_history(
    seed: u64, profile: &Profile, replay: Option<Vec<Op>>,
) -> RunReport {
    let profile = profile.clone();
    let handle = std::thread::Builder::new()
        .name(format!("run-{seed}"))
        .stack_size(32 * 1024 * 1024)
        .spawn(move || run_history_here(seed, &profile, replay))
        .expect("spawn run thread");
    match handle.join() {
        Ok(report) => report,
        Err(payload) => {
            RunReport {
                seed,
                harness_error: Some(format!(
                    "run thread panicked: {}",
                    crate::util::panic_message(&payload)
                )),
                ..Default::default()
            }
        }
    }
}

fn run_history_here(
    seed: u64, profile: &Profile, replay: Option<Vec<Op>>,
) -> RunReport {
    let t0 = std::time::Instant::now();
    let base = world::make_run_dir(seed, profile.name);
    hooks::state().reset_for_run(&base, true);
    seams::set_seed(seed);
    seams::set_thread_stream(0);
    seams::set_thread_skew_secs(0);
    seams::enable(true);

    let (w, rng, n_ops) = draw_world(seed, profile, &base);
    let config = format!("{:?}", w.insts[0].cfg);
    hooks::log(format!("seed {seed} profile {}", profile.name));
    hooks::log(format!("config {config}"));
    let mut report = RunReport {
        profile: profile.name.to_string(),
        seed,
        config,
        ..Default::default()
    };
    let mut runner = Runner::new(
        w, rng, profile.gen_cfg.clone(), profile.oracles.clone()
    );
    crate::capture_logs(profile.oracles.c19);
    if let Some(net_cfg) = &profile.net {
        crate::net::install(Rng::new(seed).fork("net"), net_cfg.clone());
    }

    // Start-up.
    let started = guarded(|| {
        let res = runner.world.insts[0].start();
        if res.is_ok() && runner.world.insts.len() > 1 {
            return runner.world.insts[1].start()
        }
        res
    });
    match started {
        Guarded::Ok(Ok(())) => { }
        Guarded::Ok(Err(err)) => {
            if err.starts_with("refused") {
                report.stats.insert("config_refused".into(), 1);
            }
            else {
                report.harness_error = Some(format!("start-up: {err}"));
            }
            finish(&mut report, &mut runner, t0, &base);
            return report
        }
        other => {
            report.harness_error = Some(format!("start-up: {other:?}"));
            finish(&mut report, &mut runner, t0, &base);
            return report
        }
    }
    runner.register_testbed(0);
    let res = runner.exec_pump();
    hooks::log(format!("initial pump {res}"));

    // Note: the harness looks at the actual state (`views`) before every
    // step in both modes. Those reads create hash maps on this thread and
    // thereby advance std's per-thread hasher keys, so they are part of the
    // deterministic execution and must happen identically on replay.
    match replay {
        Some(ops) => {
            for op in ops {
                if runner.dead.is_some() {
                    break
                }
                let _ = runner.views();
                runner.exec(&op);
                crate::oracles::after_op(&mut runner);
            }
        }
        None => {
            // c09hist, every other run: a CA with two parents and a child
            // that holds a class under each of that CA's classes; somewhere
            // in the history the child loses all of it at once (several
            // follow-ups of one command for the same CA and parent).
            let scripted = profile.name == "c09hist" && seed % 2 == 0;
            let drop_at = if scripted { runner.rng.usize(n_ops) } else { n_ops };
            if scripted {
                use crate::model::Res;
                for op in [
                    Op::CreateCa {
                        inst: 0, name: "p2".into(), parent_inst: 0,
                        parent: "testbed".into(),
                        res: Res { v4: 0x000f, v6: 0x03, asn: 0x03 },
                    },
                    Op::AddParent {
                        inst: 0, name: "p2".into(), parent_inst: 0,
                        parent: "ta".into(),
                        res: Res { v4: 0x00f0, v6: 0x0c, asn: 0x0c },
                    },
                    Op::Pump,
                    Op::CreateCa {
                        inst: 0, name: "k2".into(), parent_inst: 0,
                        parent: "p2".into(),
                        res: Res { v4: 0x0033, v6: 0x05, asn: 0x05 },
                    },
                    Op::Pump,
                ] {
                    if runner.dead.is_some() {
                        break
                    }
                    let _ = runner.views();
                    runner.exec(&op);
                    crate::oracles::after_op(&mut runner);
                }
            }
            for i in 0..n_ops {
                if runner.dead.is_some() {
                    break
                }
                if scripted && i == drop_at
                    && runner.model.ca(0, "p2").map(|p| {
                        p.children.contains_key("k2")
                    }).unwrap_or(false)
                {
                    for op in [
                        Op::ChildResources {
                            inst: 0, parent: "p2".into(), child: "k2".into(),
                            res: crate::model::Res::NONE,
                        },
                        Op::Pump,
                    ] {
                        let _ = runner.views();
                        runner.exec(&op);
                        crate::oracles::after_op(&mut runner);
                    }
                    if runner.dead.is_some() {
                        break
                    }
                }
                let op = runner.next_op();
                runner.exec(&op);
                crate::oracles::after_op(&mut runner);
                if runner.dead.is_none()
                    && !matches!(op, Op::Pump)
                    && runner.rng.below(100) < profile.gen_cfg.pump_pct
                {
                    let _ = runner.views();
                    runner.exec(&Op::Pump);
                }
            }
            if runner.dead.is_none() {
                // Heal what is still partitioned.
                let down: Vec<usize> = runner.world.insts.iter()
                    .filter(|i| !i.is_up()).map(|i| i.idx).collect();
                for inst in down {
                    let _ = runner.views();
                    runner.exec(&Op::Heal { inst });
                }
                if crate::net::is_cut() {
                    let _ = runner.views();
                    runner.exec(&Op::NetRestore);
                }
                if runner.ext.signer_offline {
                    let _ = runner.views();
                    runner.exec(&Op::SignerSession);
                }
            }
            if runner.dead.is_none() {
                // Final quiescence.
                let _ = runner.views();
                runner.exec(&Op::Pump);
            }
        }
    }
    if runner.dead.is_none() {
        if profile.rebuild_checks && runner.dead.is_none() {
            crate::c06::check(&mut runner);
        }
        if runner.dead.is_none() {
            crate::c02::final_convergence(&mut runner);
        }
        if runner.dead.is_none() {
            crate::c04::final_liveness(&mut runner);
        }
    }
    if std::env::var("VERIF_DEBUG").is_ok() {
        debug_dump(&runner);
    }
    finish(&mut report, &mut runner, t0, &base);
    report
}

fn debug_dump(runner: &Runner) {
    fn trunc(v: &mut serde_json::Value) {
        match v {
            serde_json::Value::String(s) => {
                if s.len() > 70 { s.truncate(70); }
            }
            serde_json::Value::Array(a) => a.iter_mut().for_each(trunc),
            serde_json::Value::Object(o) => o.values_mut().for_each(trunc),
            _ => {}
        }
    }
    for inst in &runner.world.insts {
        if !inst.is_up() { continue }
        let rt = inst.rt();
        for ca in rt.ca_manager().ca_handles().unwrap_or_default() {
            if let Ok(ca) = rt.ca_manager().get_ca(&ca) {
                let mut v = serde_json::to_value(ca.as_ca_info()).unwrap();
                trunc(&mut v);
                eprintln!("CA {}", serde_json::to_string_pretty(&v).unwrap());
            }
        }
        for ca in rt.ca_manager().ca_handles().unwrap_or_default() {
            if let Ok(hist) = rt.ca_manager().ca_history(
                &ca, krill::api::history::CommandHistoryCriteria::default()
            ) {
                for rec in hist.commands {
                    eprintln!(
                        "HIST {} v{} {} => {:?}", ca, rec.version,
                        serde_json::to_string(&rec.summary).unwrap_or_default(),
                        rec.effect
                    );
                }
            }
        }
        eprintln!("pending tasks: {:?}", inst.pending_tasks());
        eprintln!("running tasks: {:?}", inst.running_tasks());
        if let Ok((objects, _)) = crate::rp::collect_objects(rt) {
            for uri in objects.keys() {
                eprintln!("  {uri}");
            }
        }
    }
    for ca in runner.model.cas.values() {
        for class in crate::objsets::read(runner.world.inst(ca.inst).rt(), &ca.name) {
            for set in &class.sets {
                eprintln!(
                    "OBJSET {} class {} state {} {} key {} number {} this {} next {} products {:?}",
                    ca.name, class.rcn, class.state, set.role, set.key_id,
                    set.number, set.this_update, set.next_update,
                    set.products.keys().collect::<Vec<_>>()
                );
            }
        }
    }
    if let Ok(rp) = runner.world.rp_walk(0, &Default::default()) {
        for pp in &rp.pub_points {
            eprintln!(
                "PUBPOINT {} number {} this {} next {} products {}",
                pp.mft_uri, pp.mft_number, pp.mft_this_update.timestamp(),
                pp.mft_next_update.timestamp(), pp.products.len()
            );
        }
        eprintln!("RP issues: {:?}", rp.issues);
    }
    if let Ok((objects, _)) = runner.world.objects(0) {
        for (uri, bytes) in &objects {
            if uri.ends_with(".mft") {
                if let Ok(mft) = rpki::repository::manifest::Manifest::decode(bytes.clone(), false) {
                    eprintln!(
                        "MFT {} number {} this {} next {} ee {}..{}",
                        uri, mft.content().manifest_number(),
                        mft.content().this_update().timestamp(),
                        mft.content().next_update().timestamp(),
                        mft.cert().validity().not_before().timestamp(),
                        mft.cert().validity().not_after().timestamp()
                    );
                }
            }
            if uri.ends_with(".cer") {
                if let Ok(cert) = rpki::repository::cert::Cert::decode(bytes.clone()) {
                    eprintln!(
                        "CER {} {}..{}", uri,
                        cert.validity().not_before().timestamp(),
                        cert.validity().not_after().timestamp()
                    );
                }
            }
        }
    }
    eprintln!("now {}", crate::seams::now_secs());
    if std::env::var("VERIF_DEBUG_MODEL").is_ok() {
        eprintln!("model: {:#?}", runner.model);
    }
}

fn finish(
    report: &mut RunReport, runner: &mut Runner, t0: std::time::Instant,
    base: &std::path::Path,
) {
    report.ops = runner.ops_done.clone();
    report.results = runner.results.clone();
    report.violations = runner.violations.clone();
    if report.profile.starts_with("netcrash")
        && runner.ext.crashes_recovered > 0
    {
        // What the tree, delegation and revocation oracles find after an
        // instance died and was started again is a matter of recovery.
        for v in report.violations.iter_mut() {
            if matches!(v.prop.as_str(), "C01" | "C02" | "C03") {
                v.rule = format!(
                    "after_crash_{}_{}", v.prop.to_lowercase(), v.rule
                );
                v.prop = "C08".into();
            }
        }
    }
    for (k, v) in &runner.stats {
        *report.stats.entry(k.clone()).or_insert(0) += v;
    }
    report.sim_secs = runner.world.sim_secs;
    report.caught_up_checks = runner.caught_up_checks;
    report.state_changing_ops = runner.state_changing_ops;
    report.tasks_run = runner.ext.tasks_run;
    {
        let st = hooks::state();
        report.fingerprint = crate::util::sha256_hex(
            st.trace.join("\n").as_bytes()
        );
        report.fired = st.fired.clone();
        report.probes = st.probes.clone();
        if runner.oracles.c19 {
            report.probes.insert(
                "c19.sync_attempts".into(), runner.ext.c19.attempts_seen
            );
            report.probes.insert(
                "c19.sync_failures".into(), runner.ext.c19.failures_seen
            );
            report.probes.insert(
                "c19.entitlement_checks".into(),
                runner.ext.c19.entitlement_checks
            );
            report.stats.insert(
                "c19.views_checked".into(), runner.ext.c19.views_checked
            );
        }
        if runner.oracles.c11 {
            report.probes.insert(
                "c11.observations".into(), runner.ext.c11.mem.observations
            );
            report.probes.insert(
                "c11.catch_ups_checked".into(),
                runner.ext.c11.mem.catch_ups_checked
            );
            report.probes.insert(
                "c11.session_resets".into(), runner.ext.c11.resets
            );
            report.probes.insert(
                "c11.max_deltas_seen".into(),
                runner.ext.c11.mem.max_deltas_seen as u64
            );
        }
        report.kv_mutations = st.kv_mutations;
        report.fs_mutations = st.fs_mutations;
        if std::env::var("VERIF_DUMP_TRACE").is_ok() {
            let path = format!("/tmp/krill-sim-trace-{}.log", report.seed);
            let _ = std::fs::write(&path, st.trace.join("\n"));
        }
    }
    for inst in runner.world.insts.iter_mut() {
        inst.stop();
    }
    crate::net::uninstall();
    crate::capture_logs(false);
    seams::enable(false);
    world::remove_run_dir(base);
    report.wall_ms = t0.elapsed().as_millis() as u64;
}

//------------ Minimisation --------------------------------------------------

/// Delta-debugs the operation list of a failing run: drops chunks of
/// operations while the same (property, rule) violation recurs.
pub fn minimise(
    seed: u64, profile: &Profile, ops: Vec<Op>, prop: &str, rule: &str,
    budget: usize,
) -> (Vec<Op>, usize) {
    let fails = |ops: &Vec<Op>| -> bool {
        let rep = run_history(seed, profile, Some(ops.clone()));
        rep.violations.iter().any(|v| v.prop == prop && v.rule == rule)
    };
    let mut current = ops;
    let mut tries = 0;
    if !fails(&current) {
        return (current, 1)
    }
    let mut chunk = std::cmp::max(current.len() / 2, 1);
    while chunk >= 1 && tries < budget {
        let mut i = 0;
        let mut progressed = false;
        while i < current.len() && tries < budget {
            let end = std::cmp::min(i + chunk, current.len());
            let mut candidate = current.clone();
            candidate.drain(i..end);
            tries += 1;
            if fails(&candidate) {
                current = candidate;
                progressed = true;
            }
            else {
                i = end;
            }
        }
        if chunk == 1 && !progressed {
            break
        }
        if !progressed || chunk > 1 {
            chunk = std::cmp::max(chunk / 2, 1);
            if chunk == 1 && !progressed && current.len() <= 1 {
                break
            }
        }
    }
    (current, tries)
}

//------------ Replay files --------------------------------------------------

#[derive(Clone, Debug, Serialize, Deserialize)]
pub struct ReplayFile {
    pub property: String,
    pub rule: String,
    pub detail: String,
    pub profile: String,
    pub seed: u64,
    pub ops: Vec<Op>,
    pub original_ops: usize,
    pub fingerprint: String,
    pub kind: String,
    #[serde(default)]
    pub extra: serde_json::Value,
}
