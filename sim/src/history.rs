//! The history runner: executes operations against the world, keeps the
//! model in step, evaluates oracles.

use std::collections::{BTreeMap, BTreeSet};
use std::str::FromStr;
use bytes::Bytes;
use rpki::ca::csr::BgpsecCsr;
use rpki::ca::idexchange::{ChildHandle, ParentHandle};
use rpki::repository::resources::{Asn, ResourceSet};
use serde::{Deserialize, Serialize};
use krill::api;
use crate::hooks;
use crate::model::{ca_key, MCa, MChild, MParent, Model, Res};
use crate::ops::{CaView, GenCfg, GenCtx, Op, RoaSpec};
use crate::rng::Rng;
use crate::rp::{self, AspaPayload, RouterKey, RpResult, Vrp};
use crate::seams;
use crate::sim::{err_string, handle, World};
use crate::util::block_on;
use crate::world::{guarded, Guarded, ADMIN};

//------------ Violations ----------------------------------------------------

#[derive(Clone, Debug, Serialize, Deserialize)]
pub struct Violation {
    pub prop: String,
    pub rule: String,
    pub detail: String,
    pub step: usize,
}

/// What Krill reports about one resource class of a CA.
#[derive(Clone, Debug)]
pub struct ClassInfo {
    pub rcn: String,
    pub name_space: String,
    pub parent: String,
    pub active_key: Option<String>,
    /// Directory in which the (active) key's certificate is published.
    pub cert_dir: Option<String>,
    /// "pending", "active", "roll_pending", "roll_new" or "roll_old".
    pub state: String,
    /// (role, key id) for every key of the class.
    pub key_ids: Vec<(String, String)>,
}

//------------ Oracle selection ----------------------------------------------

#[derive(Clone, Debug, Default)]
pub struct Oracles {
    pub c01: bool,
    pub c02: bool,
    pub c03: bool,
    pub c04: bool,
    pub c05: bool,
    pub c06: bool,
    pub c14: bool,
    pub c19: bool,
    pub c11: bool,
    /// Follow-up oracle of C09 at every quiescence.
    pub c09: bool,
}

impl Oracles {
    pub fn all() -> Self {
        Oracles {
            c01: true, c02: true, c03: true, c04: true, c05: true,
            c06: true, c14: true, c19: true, c11: true, c09: true,
        }
    }
}

//------------ Runner --------------------------------------------------------

pub struct Runner {
    pub world: World,
    pub model: Model,
    pub rng: Rng,
    pub gen_cfg: GenCfg,
    pub oracles: Oracles,
    pub ops_done: Vec<Op>,
    pub results: Vec<String>,
    pub violations: Vec<Violation>,
    pub step: usize,
    pub stats: BTreeMap<String, u64>,
    pub csrs: Vec<Bytes>,
    /// Set when the run cannot continue meaningfully (instance died).
    pub dead: Option<String>,
    pub caught_up_checks: u64,
    pub state_changing_ops: u64,
    pub ext: crate::oracles::OracleState,
    pub in_second_chance: bool,
    pub ext_c06_compared: u64,
    /// Set while an interrupted request is being submitted again.
    pub resuming: bool,
    /// Network faults counted at the last second chance.
    pub net_faults_seen: u64,
}

pub fn load_csrs() -> Vec<Bytes> {
    let dir = std::env::var("VERIF_BGPSEC_DIR")
        .unwrap_or_else(|_| "/verif/keypool/bgpsec".to_string());
    let mut out = Vec::new();
    for i in 0..16 {
        let path = format!("{dir}/csr{i}.der");
        if let Ok(bytes) = std::fs::read(&path) {
            if BgpsecCsr::decode(bytes.as_slice()).is_ok() {
                out.push(Bytes::from(bytes));
            }
        }
    }
    out
}

impl Runner {
    pub fn new(world: World, rng: Rng, gen_cfg: GenCfg, oracles: Oracles) -> Self {
        Runner {
            world,
            model: Model::default(),
            rng,
            gen_cfg,
            oracles,
            ops_done: Vec::new(),
            results: Vec::new(),
            violations: Vec::new(),
            step: 0,
            stats: BTreeMap::new(),
            csrs: load_csrs(),
            dead: None,
            caught_up_checks: 0,
            state_changing_ops: 0,
            ext: Default::default(),
            in_second_chance: false,
            ext_c06_compared: 0,
            resuming: false,
            net_faults_seen: 0,
        }
    }

    pub fn stat(&mut self, name: &str) {
        *self.stats.entry(name.to_string()).or_insert(0) += 1;
    }

    pub fn violation(&mut self, prop: &str, rule: &str, detail: String) {
        hooks::log(format!("VIOLATION {prop} {rule}: {detail}"));
        // Keep one violation per (prop, rule) per run to bound output.
        if self.violations.iter().any(|v| v.prop == prop && v.rule == rule) {
            return
        }
        self.violations.push(Violation {
            prop: prop.to_string(),
            rule: rule.to_string(),
            detail,
            step: self.step,
        });
    }

    /// Registers the CAs that exist after start-up in testbed mode.
    pub fn register_testbed(&mut self, inst: usize) {
        let mut ca = MCa {
            name: "testbed".to_string(),
            inst,
            has_repo: true,
            repo_inst: inst,
            ..Default::default()
        };
        ca.parents.insert("ta".to_string(), MParent {
            parent_inst: inst,
            parent_ca: "ta".to_string(),
            child_handle: "testbed".to_string(),
        });
        self.model.cas.insert(ca_key(inst, "testbed"), ca);
        self.model.ta_children.insert(ca_key(inst, "testbed"), MChild {
            ent: Res::ALL,
            suspended: false,
            child_inst: Some(inst),
            child_ca: "testbed".to_string(),
            was_suspended: false,
        });
    }

    //--- Views of the actual state

    /// Union of the resources on the certificates of the active keys of the
    /// CA (what the CA "holds"; a new key staged during a roll does not
    /// count, only the active key signs).
    ///
    /// The union is formed on the block lattice and is therefore canonical;
    /// rpki-rs's `ResourceSet::union` can leave overlapping, unsorted blocks
    /// behind for which `contains` gives wrong answers.
    pub fn held_set(&self, inst: usize, ca: &str) -> Option<ResourceSet> {
        hooks::with_faults_suspended(|| {
            let i = self.world.inst(inst);
            if !i.is_up() {
                return None
            }
            let info = i.rt().ca_manager().get_ca(&handle(ca)).ok()?
                .as_ca_info();
            let value = serde_json::to_value(&info.resource_classes).ok()?;
            let mut lattice = Res::NONE;
            let mut exact: Option<ResourceSet> = None;
            let mut count = 0;
            collect_active(&value, &mut |res| {
                lattice = lattice.union(&Res::from_set(res));
                exact = Some(res.clone());
                count += 1;
            });
            if count == 1 {
                // A single class: its certificate is what is held (this
                // also covers CAs holding more than the lattice universe).
                return exact
            }
            Some(lattice.to_set())
        })
    }

    /// The resources of each active key's certificate, one entry per class.
    pub fn held_certs(&self, inst: usize, ca: &str) -> Vec<ResourceSet> {
        hooks::with_faults_suspended(|| {
            let i = self.world.inst(inst);
            if !i.is_up() {
                return Vec::new()
            }
            let Ok(ca) = i.rt().ca_manager().get_ca(&handle(ca)) else {
                return Vec::new()
            };
            let info = ca.as_ca_info();
            let Ok(value) = serde_json::to_value(&info.resource_classes) else {
                return Vec::new()
            };
            let mut out = Vec::new();
            collect_active(&value, &mut |res| out.push(res.clone()));
            out
        })
    }

    /// Number of resource classes with an active key.
    pub fn class_count(&self, inst: usize, ca: &str) -> usize {
        self.class_infos(inst, ca).iter()
            .filter(|c| c.active_key.is_some()).count()
    }

    pub fn views(&self) -> BTreeMap<String, CaView> {
        let mut views = BTreeMap::new();
        for ca in self.model.cas.values() {
            let held = self.held_set(ca.inst, &ca.name)
                .map(|set| Res::from_set(&set)).unwrap_or(Res::NONE);
            let depth = self.depth_of(ca.inst, &ca.name, 0);
            views.insert(ca_key(ca.inst, &ca.name), CaView { held, depth });
        }
        views
    }

    fn depth_of(&self, inst: usize, name: &str, guard: usize) -> usize {
        if guard > 8 {
            return guard
        }
        let Some(ca) = self.model.ca(inst, name) else { return 0 };
        ca.parents.values().map(|p| {
            if p.parent_ca == "ta" { 1 }
            else { 1 + self.depth_of(p.parent_inst, &p.parent_ca, guard + 1) }
        }).max().unwrap_or(1)
    }

    //--- Generation

    pub fn next_op(&mut self) -> Op {
        let views = self.views();
        let disk: Vec<bool> = self.world.insts.iter()
            .map(|i| i.cfg.disk).collect();
        let down: Vec<usize> = self.world.insts.iter()
            .filter(|i| !i.is_up()).map(|i| i.idx).collect();
        let ctx = GenCtx {
            down: &down,
            cut: crate::net::is_cut(),
            signer_offline: self.ext.signer_offline,
            model: &self.model,
            cfg: &self.gen_cfg,
            n_insts: self.world.insts.len(),
            views: &views,
            bgpsec_csrs: std::cmp::max(self.csrs.len(), 1),
            disk: &disk,
            retired: &self.ext.deleted_cas,
        };
        crate::ops::generate(&mut self.rng, &ctx)
    }

    //--- Execution

    /// Executes one operation; returns its normalised result text.
    pub fn exec(&mut self, op: &Op) -> String {
        self.step += 1;
        self.stat(&format!("op.{}", op.kind()));
        hooks::log(format!("op {} {}", self.step, op.kind()));
        let res = match guarded(|| self.exec_inner(op)) {
            Guarded::Ok(res) => res,
            Guarded::Crash => {
                self.dead = Some("crash".into());
                "CRASH".to_string()
            }
            Guarded::Fatal(msg) => {
                if hooks::state().fault.fired_at.is_some() {
                    // Stopping the daemon on an I/O error is deliberate;
                    // it counts as a crash at that point.
                    self.dead = Some("crash".into());
                    return format!("EXIT-AFTER-FAULT {msg}")
                }
                self.violation(
                    "C04", "daemon_exit",
                    format!("{}: daemon would exit: {msg}", op.kind())
                );
                self.dead = Some(format!("fatal: {msg}"));
                format!("FATAL {msg}")
            }
            Guarded::Panic(msg) => {
                self.violation(
                    "C04", "panic",
                    format!("{}: panic: {msg}", op.kind())
                );
                self.violation(
                    "C16", "panic",
                    format!("{}: panic: {msg}", op.kind())
                );
                self.dead = Some(format!("panic: {msg}"));
                format!("PANIC {msg}")
            }
            Guarded::Abort => {
                self.dead = Some("abort".into());
                "ABORT".to_string()
            }
        };
        hooks::log(format!("res {} {}", self.step, res));
        self.ops_done.push(op.clone());
        self.results.push(res.clone());
        res
    }

    fn label(res: &Result<(), String>) -> String {
        match res {
            Ok(()) => "ok".to_string(),
            Err(e) => {
                format!("err:{}", e.split(':').next().unwrap_or(""))
            }
        }
    }

    /// Compares a prediction with the outcome (C05).
    fn judge(
        &mut self, what: &str, predicted: Option<bool>,
        res: &Result<(), String>, detail: &str,
    ) {
        if !self.oracles.c05 {
            return
        }
        let what = &if detail.contains("[multi-class]") {
            format!("{what}_multiclass")
        } else {
            what.to_string()
        };
        if let Some(expect_ok) = predicted {
            self.stat(if expect_ok { "c05.pred_accept" } else { "c05.pred_refuse" });
            if expect_ok != res.is_ok() {
                self.violation(
                    "C05", &format!("{what}_verdict"),
                    format!(
                        "{what}: model predicts {}, Krill answered {:?}; {detail}",
                        if expect_ok { "accept" } else { "refuse" }, res
                    )
                );
            }
        }
    }

    fn exec_inner(&mut self, op: &Op) -> String {
        // A CA under the trust anchor is not given up while its requests
        // wait for the off-line signer: the certificate the signer issues
        // afterwards would have no one left to publish under it or to
        // revoke it (the operator of the trust anchor would have to remove
        // the child; nothing in Krill can).
        if self.ext.signer_offline || self.ext.signer_backlog {
            let under_ta = |me: &Runner, inst: usize, name: &str| {
                me.model.ca(inst, name).map(|ca| {
                    ca.parents.values().any(|p| p.parent_ca == "ta")
                }).unwrap_or(false)
            };
            match op {
                Op::DeleteCa { inst, name }
                    if under_ta(self, *inst, name) =>
                {
                    return "skip:signer-offline".into()
                }
                Op::RemoveParent { inst, name, parent }
                    if self.model.ca(*inst, name).and_then(|ca| {
                        ca.parents.get(parent)
                    }).map(|p| p.parent_ca == "ta").unwrap_or(false) =>
                {
                    return "skip:signer-offline".into()
                }
                _ => { }
            }
        }
        // An instance that is down can neither be operated nor reached.
        if !matches!(op, Op::Heal { .. })
            && op.instances().iter().any(|i| {
                *i < self.world.insts.len() && !self.world.inst(*i).is_up()
            })
        {
            return "skip:down".into()
        }
        if matches!(op, Op::NetCut | Op::NetRestore) {
            let cut = matches!(op, Op::NetCut);
            if crate::net::is_cut() == cut {
                return "skip:same".into()
            }
            crate::net::set_cut(cut);
            self.stat(if cut { "net_cut" } else { "net_restore" });
            return if cut { "cut" } else { "restored" }.into()
        }
        // The operator's set-up exchanges between two instances need the
        // link.
        if crate::net::is_cut() {
            let across = match op {
                Op::CreateCa { inst, parent_inst, .. }
                | Op::AddParent { inst, parent_inst, .. } => {
                    inst != parent_inst || *inst != 0
                }
                _ => false,
            };
            if across {
                return "skip:cut".into()
            }
        }
        // Deleting a CA or removing a parent asks the parents for
        // revocation "best effort"; with a parent unreachable that leaves
        // its certificate behind (known finding under C08), so these two
        // wait for the partition to heal.
        if let Op::DeleteCa { inst, name } | Op::RemoveParent { inst, name, .. } = op {
            let cut = crate::net::is_cut();
            let parent_down = self.model.ca(*inst, name).map(|ca| {
                ca.parents.values().any(|p| {
                    p.parent_inst < self.world.insts.len()
                        && (!self.world.inst(p.parent_inst).is_up()
                            || (cut && p.parent_inst != *inst))
                })
            }).unwrap_or(false) || (cut && *inst != 0);
            if parent_down {
                return "skip:parent_down".into()
            }
        }
        if let Op::Partition { inst } = op {
            if !self.world.inst(*inst).cfg.disk {
                return "skip:memory".into()
            }
            self.world.insts[*inst].stop();
            self.stat("partition");
            return "down".into()
        }
        if let Op::Heal { inst } = op {
            if self.world.inst(*inst).is_up() {
                return "skip:up".into()
            }
            return match self.world.insts[*inst].start() {
                Ok(()) => { self.stat("heal"); "up".into() }
                Err(err) => {
                    self.violation(
                        "C08", "restart_failed",
                        format!("instance does not start: {err}")
                    );
                    self.dead = Some(format!("restart failed: {err}"));
                    format!("err:{err}")
                }
            }
        }
        match op.clone() {
            Op::CreateCa { inst, name, parent_inst, parent, res } => {
                if parent == "ta" && inst != parent_inst {
                    return "skip:remote_ta".into()
                }
                // The operator's set-up exchanges (RFC 8183 files, the
                // connection tests) are not subjected to network faults;
                // everything after them is.
                crate::net::set_quiet(true);
                let res = self.exec_create(
                    inst, &name, parent_inst, &parent, res
                );
                crate::net::set_quiet(false);
                res
            }
            Op::AddParent { inst, name, parent_inst, parent, res } => {
                if self.model.ca(inst, &name).is_none() {
                    return "skip:no_ca".into()
                }
                if parent == "ta" && inst != parent_inst {
                    return "skip:remote_ta".into()
                }
                crate::net::set_quiet(true);
                let res = self.exec_add_parent(
                    inst, &name, parent_inst, &parent, res
                );
                crate::net::set_quiet(false);
                res
            }
            Op::RemoveParent { inst, name, parent } => {
                // Best-effort revocation, like deleting a CA.
                crate::net::set_quiet(true);
                let res = self.exec_remove_parent(inst, &name, &parent);
                crate::net::set_quiet(false);
                res
            }
            Op::DeleteCa { inst, name } => {
                // Deleting a CA revokes and withdraws "best effort": what a
                // lost request leaves behind is recorded as a known finding
                // under C08 (delete_ca_best_effort_step_failed); here the
                // tear-down is not subjected to network faults.
                crate::net::set_quiet(true);
                let res = self.exec_delete(inst, &name);
                crate::net::set_quiet(false);
                res
            }
            Op::ChildResources { inst, parent, child, res } => {
                self.exec_child_resources(inst, &parent, &child, res)
            }
            Op::ChildRemove { inst, parent, child } => {
                self.exec_child_remove(inst, &parent, &child)
            }
            Op::ChildMapClass { inst, parent, child, name } => {
                if parent == "ta" {
                    return "skip:ta".into()
                }
                // The parent's (first live) class, by its real name.
                let Some(class) = self.class_infos(inst, &parent).into_iter()
                    .next()
                else { return "skip:no_class".into() };
                let (Ok(name_in_parent), Ok(name_for_child)) = (
                    rpki::ca::provisioning::ResourceClassName::from_str(&class.rcn),
                    rpki::ca::provisioning::ResourceClassName::from_str(&name),
                ) else { return "skip:name".into() };
                let i = self.world.inst(inst);
                i.enter();
                let req = api::admin::UpdateChildRequest::resource_class_name_mapping(
                    api::admin::ResourceClassNameMapping {
                        name_in_parent, name_for_child,
                    }
                );
                let result = block_on(i.mgr().ca_child_update(
                    handle(&parent), ChildHandle::from_str(&child).unwrap(),
                    req, ADMIN
                )).map_err(err_string);
                if result.is_ok() {
                    self.state_changing_ops += 1;
                    crate::oracles::note_entitlement_change(self);
                    self.ext.entitlement_events += 1;
                }
                Self::label(&result)
            }
            Op::ChildSuspend { inst, parent, child, suspend } => {
                self.exec_child_suspend(inst, &parent, &child, suspend)
            }
            Op::Roa { inst, ca, add, remove } => {
                self.exec_roa(inst, &ca, &add, &remove)
            }
            Op::Aspa { inst, ca, add, remove } => {
                self.exec_aspa(inst, &ca, &add, &remove)
            }
            Op::AspaProviders { inst, ca, customer, added, removed } => {
                self.exec_aspa_providers(inst, &ca, customer, &added, &removed)
            }
            Op::Bgpsec { inst, ca, add, remove } => {
                self.exec_bgpsec(inst, &ca, &add, &remove)
            }
            Op::KeyRollInit { inst, ca } => {
                let i = self.world.inst(inst);
                i.enter();
                let res = block_on(i.mgr().ca_keyroll_init(handle(&ca), ADMIN))
                    .map_err(err_string);
                if res.is_ok() { self.state_changing_ops += 1; }
                Self::label(&res)
            }
            Op::KeyRollActivate { inst, ca } => {
                let i = self.world.inst(inst);
                i.enter();
                let res = block_on(
                    i.mgr().ca_keyroll_activate(handle(&ca), ADMIN)
                ).map_err(err_string);
                if res.is_ok() { self.state_changing_ops += 1; }
                Self::label(&res)
            }
            Op::RefreshAll { inst } => {
                let i = self.world.inst(inst);
                i.enter();
                Self::label(
                    &block_on(i.mgr().cas_refresh_all()).map_err(err_string)
                )
            }
            Op::RepublishAll { inst, force } => {
                let i = self.world.inst(inst);
                i.enter();
                Self::label(
                    &block_on(i.mgr().republish_all(force)).map_err(err_string)
                )
            }
            Op::RepoSyncAll { inst } => {
                let i = self.world.inst(inst);
                i.enter();
                Self::label(
                    &block_on(i.mgr().cas_repo_sync_all()).map_err(err_string)
                )
            }
            Op::Snapshot { inst } => {
                let i = self.world.inst(inst);
                i.enter();
                let res = i.rt().tasks().schedule(
                    krill::server::mq::Task::UpdateSnapshots,
                    krill::server::mq::now(),
                ).map_err(err_string);
                Self::label(&res)
            }
            Op::SnapshotFail { inst, k } => {
                // Quiet first, so that the failing write falls into the
                // snapshot update itself.
                let quiet = self.exec_pump();
                if self.dead.is_some() {
                    return format!("dead:{quiet}")
                }
                let res = {
                    let i = self.world.inst(inst);
                    i.enter();
                    i.rt().tasks().schedule(
                        krill::server::mq::Task::UpdateSnapshots,
                        krill::server::mq::now(),
                    ).map_err(err_string)
                };
                if res.is_err() {
                    return Self::label(&res)
                }
                hooks::state().fault = hooks::FaultPlan {
                    mode: hooks::FaultMode::FailAt(k),
                    scope: hooks::FaultScope::All,
                    instance: Some(inst),
                    counter: 0,
                    fired_at: None,
                    record: false,
                    sites: Vec::new(),
                };
                let pumped = self.exec_pump();
                let fired = {
                    let mut st = hooks::state();
                    let fired = st.fault.fired_at.clone();
                    st.fault = hooks::FaultPlan::default();
                    fired
                };
                if fired.is_some() {
                    self.stat("snapshot_fail.fired");
                }
                format!("{pumped}:{}", fired.is_some())
            }
            Op::ReAddPublisher { inst, ca } => {
                let req = {
                    let i = self.world.inst(inst);
                    i.enter();
                    block_on(i.mgr().ca_publisher_req(handle(&ca)))
                        .map_err(err_string)
                };
                let res = match req {
                    Ok(req) => {
                        let repo_inst = self.model.ca(inst, &ca)
                            .map(|c| c.repo_inst).unwrap_or(0);
                        let repo = self.world.inst(repo_inst);
                        repo.enter();
                        block_on(repo.mgr().add_publisher(req, ADMIN))
                            .map(|_| ()).map_err(err_string)
                    }
                    Err(err) => Err(err),
                };
                Self::label(&res)
            }
            Op::RemovePublisher { inst, ca } => {
                let i = self.world.inst(inst);
                i.enter();
                let res = match rpki::ca::idexchange::PublisherHandle::from_str(&ca) {
                    Ok(publisher) => i.rt().repo_manager().remove_publisher(
                        publisher, &ADMIN, i.rt()
                    ).map_err(err_string),
                    Err(_) => Err("handle".to_string()),
                };
                if res.is_ok() {
                    self.ext.c19.server_wiped.insert(ca.clone());
                }
                Self::label(&res)
            }
            Op::Partition { .. } | Op::Heal { .. } | Op::NetCut
            | Op::NetRestore => "handled".into(),
            Op::CrashNext { inst, k } => {
                if inst >= self.world.insts.len()
                    || !self.world.inst(inst).cfg.disk
                {
                    return "skip:memory".into()
                }
                self.ext.pending_crash = Some((inst, k));
                "armed".into()
            }
            Op::SignerOffline => {
                self.ext.signer_offline = true;
                "offline".into()
            }
            Op::SignerSession => {
                self.ext.signer_offline = false;
                // The requests that piled up are only answered by the
                // background work that follows.
                self.ext.signer_backlog = true;
                let i = self.world.inst(0);
                i.enter();
                let res = i.rt().tasks().schedule(
                    krill::server::mq::Task::SyncTrustAnchorProxySignerIfPossible,
                    krill::server::mq::now(),
                ).map_err(err_string);
                Self::label(&res)
            }
            Op::RrdpSessionReset { inst } => {
                let i = self.world.inst(inst);
                i.enter();
                let res = block_on(i.mgr().repository_session_reset())
                    .map_err(err_string);
                if res.is_ok() {
                    crate::c11::note_session_reset(self);
                }
                Self::label(&res)
            }
            Op::RestartRrdp {
                inst, min_nr, max_nr, min_seconds, max_seconds, interval
            } => {
                if !self.world.inst(inst).cfg.disk {
                    return "skip:memory".into()
                }
                self.world.insts[inst].stop();
                {
                    let cfg = &mut self.world.insts[inst].cfg.rrdp;
                    cfg.min_nr = min_nr;
                    cfg.max_nr = max_nr;
                    cfg.min_seconds = min_seconds;
                    cfg.max_seconds = max_seconds;
                    cfg.interval_min_seconds = interval;
                }
                crate::c11::note_config_change(self);
                match self.world.insts[inst].start() {
                    Ok(()) => {
                        self.stat("restart");
                        "ok".into()
                    }
                    Err(err) => {
                        self.violation(
                            "C08", "restart_failed",
                            format!("instance does not start: {err}")
                        );
                        self.dead = Some(format!("restart failed: {err}"));
                        format!("err:{err}")
                    }
                }
            }
            Op::Advance { secs } => {
                self.world.advance(secs);
                format!("t+{secs}")
            }
            Op::Pump => self.exec_pump(),
            Op::Restart { inst } => {
                if !self.world.inst(inst).cfg.disk {
                    return "skip:memory".into()
                }
                self.world.insts[inst].stop();
                match self.world.insts[inst].start() {
                    Ok(()) => {
                        self.stat("restart");
                        if self.oracles.c06 {
                            crate::c06::check(self);
                        }
                        crate::oracles::after_restart(self, inst);
                        "ok".into()
                    }
                    Err(err) => {
                        self.violation(
                            "C08", "restart_failed",
                            format!("instance does not start: {err}")
                        );
                        self.dead = Some(format!("restart failed: {err}"));
                        format!("err:{err}")
                    }
                }
            }
        }
    }

    pub fn exec_pump(&mut self) -> String {
        // A crash that was ordered for this stretch of background work.
        let armed = self.ext.pending_crash.take();
        if let Some((inst, k)) = armed {
            let mut st = hooks::state();
            st.fault = hooks::FaultPlan {
                mode: hooks::FaultMode::CrashAt(k),
                scope: hooks::FaultScope::All,
                instance: Some(inst),
                counter: 0,
                fired_at: None,
                record: true,
                sites: Vec::new(),
            };
            st.veto_presave_window = true;
            self.ext.crash_recovery = true;
        }
        let res = crate::oracles::pump_stepwise(self);
        if armed.is_some() {
            let fired = {
                let mut st = hooks::state();
                let fired = st.fault.fired_at.is_some();
                st.fault = hooks::FaultPlan::default();
                st.veto_presave_window = false;
                fired
            };
            self.ext.crash_recovery = false;
            if !fired {
                self.stat("crash_next.not_reached");
            }
        }
        match res {
            Guarded::Ok(true) => {
                if !self.ext.signer_offline {
                    self.ext.signer_backlog = false;
                }
                self.sync_model_after_pump();
                self.check_caught_up();
                if self.oracles.c11 {
                    crate::c11::at_caught_up(self);
                }
                if self.oracles.c19 {
                    crate::c19::at_caught_up(self);
                }
                "caught_up".into()
            }
            Guarded::Ok(false) => {
                self.stat("no_quiescence");
                self.violation(
                    "LIVENESS", "no_quiescence",
                    "background work did not catch up within the round \
                     limit".to_string()
                );
                "no_quiescence".into()
            }
            Guarded::Crash => {
                self.dead = Some("crash".into());
                "CRASH".into()
            }
            Guarded::Fatal(msg) => {
                if hooks::state().fault.fired_at.is_some() {
                    self.dead = Some("crash".into());
                    return format!("EXIT-AFTER-FAULT {msg}")
                }
                self.violation(
                    "C04", "daemon_exit",
                    format!("scheduler: daemon would exit: {msg}")
                );
                self.violation(
                    "C09", "daemon_exit",
                    format!("scheduler: daemon would exit: {msg}")
                );
                self.dead = Some(format!("fatal: {msg}"));
                format!("FATAL {msg}")
            }
            Guarded::Panic(msg) => {
                self.violation(
                    "C04", "panic", format!("scheduler: panic: {msg}")
                );
                // Background tasks carry the protocol exchanges between
                // children, parents and the repository: a panic there is
                // reachable from a peer's message.
                self.violation(
                    "C16", "panic", format!("scheduler: panic: {msg}")
                );
                self.dead = Some(format!("panic: {msg}"));
                format!("PANIC {msg}")
            }
            Guarded::Abort => {
                self.dead = Some("abort".into());
                "ABORT".into()
            }
        }
    }

    /// After background work: learn which suspended children called in.
    fn sync_model_after_pump(&mut self) {
        let mut updates = Vec::new();
        for ca in self.model.cas.values() {
            if !self.world.inst(ca.inst).is_up() {
                continue
            }
            let Ok(actual) = hooks::with_faults_suspended(|| {
                self.world.inst(ca.inst).rt().ca_manager()
                    .get_ca(&handle(&ca.name))
            }) else { continue };
            let info = actual.as_ca_info();
            let suspended: BTreeSet<String> = info.suspended_children.iter()
                .map(|c| c.to_string()).collect();
            for (child, mc) in &ca.children {
                let is = suspended.contains(child);
                if mc.suspended != is {
                    updates.push((ca.inst, ca.name.clone(), child.clone(), is));
                }
            }
        }
        for (inst, parent, child, is) in updates {
            if let Some(p) = self.model.ca_mut(inst, &parent) {
                if let Some(c) = p.children.get_mut(&child) {
                    c.suspended = is;
                    if is { c.was_suspended = true; }
                }
            }
        }
    }

    //--- Individual operations

    fn exec_create(
        &mut self, inst: usize, name: &str, pinst: usize, parent: &str,
        res: Res,
    ) -> String {
        if let Some(ca) = self.model.ca(inst, name) {
            if !self.resuming {
                return "skip:exists".into()
            }
            // Re-submission of an interrupted request: do what is left.
            let (has_repo, has_parent) = (ca.has_repo, !ca.parents.is_empty());
            if !has_repo {
                match self.world.setup_repo(inst, name, 0) {
                    Ok(()) => {
                        let ca = self.model.ca_mut(inst, name).unwrap();
                        ca.has_repo = true;
                        ca.repo_inst = 0;
                    }
                    Err(err) => {
                        return format!(
                            "err:repo:{}", err.split(':').next().unwrap_or("")
                        )
                    }
                }
            }
            if !has_parent {
                return self.exec_add_parent(inst, name, pinst, parent, res)
            }
            return "skip:exists".into()
        }
        if self.ext.deleted_cas.contains(name) {
            return "skip:retired_name".into()
        }
        if let Err(err) = self.world.create_ca(inst, name) {
            return format!("err:create:{}", err.split(':').next().unwrap_or(""))
        }
        self.state_changing_ops += 1;
        let mut ca = MCa {
            name: name.to_string(),
            inst,
            ..Default::default()
        };
        let repo_inst = 0;
        match self.world.setup_repo(inst, name, repo_inst) {
            Ok(()) => {
                ca.has_repo = true;
                ca.repo_inst = repo_inst;
            }
            Err(err) => {
                self.model.cas.insert(ca_key(inst, name), ca);
                return format!(
                    "err:repo:{}", err.split(':').next().unwrap_or("")
                )
            }
        }
        self.model.cas.insert(ca_key(inst, name), ca);
        self.exec_add_parent(inst, name, pinst, parent, res)
    }

    fn exec_add_parent(
        &mut self, inst: usize, name: &str, pinst: usize, parent: &str,
        res: Res,
    ) -> String {
        // Prediction for the "add child" command at the parent.
        let predicted = if parent == "ta" {
            None
        }
        else if self.model.ca(pinst, parent).is_none() {
            Some(false)
        }
        else {
            let held = self.held_set(pinst, parent).unwrap_or_default();
            let dup = self.model.ca(pinst, parent)
                .map(|p| p.children.contains_key(name)).unwrap_or(false);
            Some(!res.is_empty() && held.contains(&res.to_set()) && !dup)
        };
        let detail = format!(
            "child {name} under {parent} with {res}; parent holds {}{}",
            self.held_set(pinst, parent).map(|s| s.to_string())
                .unwrap_or_default(),
            if parent != "ta" && self.class_count(pinst, parent) > 1 {
                " [multi-class]"
            } else { "" }
        );
        let already_child = self.model.child_at(pinst, parent, name).is_some();
        // A child that the parent already knows while the model does not
        // is a re-submission after an interruption: finish the job.
        let resume = !already_child && self.resuming;
        let result = self.world.add_child(
            pinst, parent, inst, name, name, parent, &res.to_set(), resume
        );
        if already_child && parent == "ta" {
            // TA proxy: duplicate child is refused.
        }
        // The combined operation fails at the first refused step; only a
        // failure of the add-child step is covered by the prediction, later
        // steps (parent add at the child) are expected to succeed then.
        match &result {
            Ok(()) => {
                self.judge("child_add", predicted, &result, &detail);
                self.state_changing_ops += 1;
                let child = MChild {
                    ent: res,
                    suspended: false,
                    child_inst: Some(inst),
                    child_ca: name.to_string(),
                    was_suspended: false,
                };
                if parent == "ta" {
                    self.model.ta_children.insert(ca_key(pinst, name), child);
                }
                else if let Some(p) = self.model.ca_mut(pinst, parent) {
                    p.children.insert(name.to_string(), child);
                }
                if let Some(ca) = self.model.ca_mut(inst, name) {
                    ca.parents.insert(parent.to_string(), MParent {
                        parent_inst: pinst,
                        parent_ca: parent.to_string(),
                        child_handle: name.to_string(),
                    });
                    ca.orphaned = false;
                }
            }
            Err(err) => {
                // Which step failed?
                let at_parent = self.world.inst(pinst).is_up()
                    && parent != "ta"
                    && hooks::with_faults_suspended(|| {
                        self.world.inst(pinst).rt().ca_manager()
                            .get_ca(&handle(parent)).ok()
                            .map(|p| {
                                p.as_ca_info().children.iter().any(|c| {
                                    c.as_str() == name
                                })
                            })
                    }).unwrap_or(false);
                if at_parent && !already_child {
                    // The child was added but a later step failed.
                    self.violation(
                        "HARNESS", "add_parent_step",
                        format!("add parent failed after child add: {err}")
                    );
                }
                else {
                    self.judge("child_add", predicted, &result, &detail);
                }
            }
        }
        Self::label(&result)
    }

    fn exec_remove_parent(
        &mut self, inst: usize, name: &str, parent: &str,
    ) -> String {
        let i = self.world.inst(inst);
        i.enter();
        let known = self.model.ca(inst, name)
            .map(|c| c.parents.contains_key(parent)).unwrap_or(false);
        let res = block_on(i.mgr().ca_parent_remove(
            handle(name), ParentHandle::from_str(parent).unwrap(), ADMIN
        )).map_err(err_string);
        if res.is_ok() {
            self.state_changing_ops += 1;
            if let Some(ca) = self.model.ca_mut(inst, name) {
                ca.parents.remove(parent);
            }
            crate::oracles::note_parent_removed(self, inst, name, parent);
        }
        else if known {
            self.stat("remove_parent_refused");
        }
        Self::label(&res)
    }

    fn exec_delete(&mut self, inst: usize, name: &str) -> String {
        let i = self.world.inst(inst);
        i.enter();
        let res = block_on(i.mgr().ca_delete(handle(name), ADMIN))
            .map_err(err_string);
        if res.is_ok() {
            self.state_changing_ops += 1;
            crate::oracles::note_ca_deleted(self, inst, name);
            if self.oracles.c19 {
                self.ext.c19_deleted_inst = Some(inst);
                crate::c19::after_delete(self, name);
            }
            self.model.cas.remove(&ca_key(inst, name));
        }
        Self::label(&res)
    }

    fn exec_child_resources(
        &mut self, inst: usize, parent: &str, child: &str, res: Res,
    ) -> String {
        if parent == "ta" {
            return "skip:ta".into()
        }
        let known = self.model.child_at(inst, parent, child).is_some();
        let held = self.held_set(inst, parent).unwrap_or_default();
        let predicted = if self.model.ca(inst, parent).is_none() {
            Some(false)
        }
        else {
            Some(known && held.contains(&res.to_set()))
        };
        let i = self.world.inst(inst);
        i.enter();
        let result = block_on(i.mgr().ca_child_update(
            handle(parent), ChildHandle::from_str(child).unwrap(),
            api::admin::UpdateChildRequest::resources(res.to_set()), ADMIN
        )).map_err(err_string);
        let multi = if self.class_count(inst, parent) > 1 {
            " [multi-class]"
        } else { "" };
        self.judge(
            "child_update", predicted, &result,
            &format!("child {child} of {parent} to {res}{multi}")
        );
        if result.is_ok() {
            self.state_changing_ops += 1;
            if let Some(p) = self.model.ca_mut(inst, parent) {
                if let Some(c) = p.children.get_mut(child) {
                    c.ent = res;
                }
            }
            crate::oracles::note_entitlement_change(self);
            self.ext.entitlement_events += 1;
        }
        Self::label(&result)
    }

    fn exec_child_remove(
        &mut self, inst: usize, parent: &str, child: &str,
    ) -> String {
        if parent == "ta" {
            return "skip:ta".into()
        }
        let i = self.world.inst(inst);
        i.enter();
        let result = block_on(i.mgr().ca_child_remove(
            handle(parent), ChildHandle::from_str(child).unwrap(), ADMIN
        )).map_err(err_string);
        if result.is_ok() {
            self.state_changing_ops += 1;
            self.ext.detach_events += 1;
            let removed = self.model.ca_mut(inst, parent)
                .and_then(|p| p.children.remove(child));
            if let Some(removed) = removed {
                if let Some(ci) = removed.child_inst {
                    if let Some(ca) = self.model.ca_mut(ci, &removed.child_ca) {
                        if let Some(link) = ca.parents.get(parent) {
                            if link.parent_inst == inst {
                                // The child still lists the parent, but the
                                // link is dead.
                                ca.orphaned = true;
                            }
                        }
                    }
                }
            }
        }
        Self::label(&result)
    }

    fn exec_child_suspend(
        &mut self, inst: usize, parent: &str, child: &str, suspend: bool,
    ) -> String {
        if parent == "ta" {
            return "skip:ta".into()
        }
        let i = self.world.inst(inst);
        i.enter();
        let req = if suspend {
            api::admin::UpdateChildRequest::suspend()
        } else {
            api::admin::UpdateChildRequest::unsuspend()
        };
        let result = block_on(i.mgr().ca_child_update(
            handle(parent), ChildHandle::from_str(child).unwrap(), req, ADMIN
        )).map_err(err_string);
        if result.is_ok() {
            self.state_changing_ops += 1;
            self.ext.detach_events += 1;
            if let Some(p) = self.model.ca_mut(inst, parent) {
                if let Some(c) = p.children.get_mut(child) {
                    c.suspended = suspend;
                    if suspend { c.was_suspended = true; }
                }
            }
            if !suspend {
                crate::c02::note_unsuspended(self, parent, child);
            }
        }
        Self::label(&result)
    }

    fn exec_roa(
        &mut self, inst: usize, ca: &str, add: &[RoaSpec], remove: &[RoaSpec],
    ) -> String {
        // Model verdict: removals first, then additions.
        let predicted;
        let mut next = None;
        let mut undecided = false;
        if let Some(mca) = self.model.ca(inst, ca) {
            let held = self.held_set(inst, ca).unwrap_or_default();
            let certs = self.held_certs(inst, ca);
            let mut desired = mca.roas.clone();
            let mut ok = true;
            for spec in remove {
                if desired.remove(&spec.key()).is_none() {
                    ok = false;
                }
            }
            let mut compare = desired.clone();
            for spec in add {
                let key = spec.key();
                if !spec.max_len_valid() {
                    ok = false;
                }
                else if !held.contains(&spec.pfx.to_set()) {
                    ok = false;
                }
                else if let Some(comment) = compare.get(&key) {
                    if !certs.iter().any(|c| c.contains(&spec.pfx.to_set())) {
                        undecided = true;
                    }
                    if comment == &spec.comment {
                        ok = false; // duplicate
                    }
                    else {
                        // Same payload with another comment: a comment
                        // update. An entry that existed before the delta
                        // is judged against its comment as it was before
                        // the delta (so repeating the same new comment in
                        // one delta is idempotent, not a duplicate).
                        desired.insert(key, spec.comment.clone());
                    }
                }
                else {
                    if !certs.iter().any(|c| c.contains(&spec.pfx.to_set())) {
                        // Held only as the union of several certificates:
                        // the statement does not say; no verdict.
                        undecided = true;
                    }
                    desired.insert(key.clone(), spec.comment.clone());
                    compare.insert(key, spec.comment.clone());
                }
            }
            predicted = if undecided && ok { None } else { Some(ok) };
            if ok {
                next = Some(desired);
            }
        }
        else {
            predicted = Some(false);
        }
        let before = self.config_digest(inst, ca);
        let audit_before = self.audit_tail(inst, ca);
        let i = self.world.inst(inst);
        i.enter();
        let updates = api::roa::RoaConfigurationUpdates {
            added: add.iter().filter_map(|s| {
                api::roa::RoaConfiguration::from_str(&s.config_text()).ok()
            }).collect(),
            removed: remove.iter().filter_map(|s| {
                api::roa::RoaPayload::from_str(&s.payload_text()).ok()
            }).collect(),
        };
        let result = block_on(
            i.mgr().ca_routes_update(handle(ca), updates, ADMIN)
        ).map_err(err_string);
        let detail = format!(
            "ca {ca} add {:?} remove {:?}",
            add.iter().map(|s| s.config_text()).collect::<Vec<_>>(),
            remove.iter().map(|s| s.payload_text()).collect::<Vec<_>>(),
        );
        self.judge("roa_delta", predicted, &result, &detail);
        let noop = add.is_empty() && remove.is_empty();
        self.check_audit(inst, ca, "roa_delta", audit_before, &result, noop);
        match &result {
            Ok(()) => {
                self.state_changing_ops += 1;
                // Follow what Krill accepted.
                match next {
                    Some(next) => {
                        if let Some(mca) = self.model.ca_mut(inst, ca) {
                            mca.roas = next;
                        }
                    }
                    None => {
                        // Accepted against the prediction: apply naively.
                        if let Some(mca) = self.model.ca_mut(inst, ca) {
                            for spec in remove {
                                mca.roas.remove(&spec.key());
                            }
                            for spec in add {
                                mca.roas.insert(spec.key(), spec.comment.clone());
                            }
                        }
                    }
                }
                self.check_roa_config_view(inst, ca);
            }
            Err(_) => {
                self.check_refusal_untouched(inst, ca, &before, "roa_delta");
            }
        }
        Self::label(&result)
    }

    fn exec_aspa(
        &mut self, inst: usize, ca: &str,
        add: &[(u32, Vec<u32>)], remove: &[u32],
    ) -> String {
        let predicted;
        let mut next = None;
        if let Some(mca) = self.model.ca(inst, ca) {
            let held = self.held_set(inst, ca).unwrap_or_default();
            let mut desired = mca.aspas.clone();
            let mut ok = true;
            for customer in remove {
                if desired.remove(customer).is_none() {
                    ok = false;
                    break
                }
            }
            if ok {
                for (customer, providers) in add {
                    let set: BTreeSet<u32> = providers.iter().copied().collect();
                    if providers.is_empty()
                        || providers.contains(customer)
                        || set.len() != providers.len()
                        || !held.contains_asn(Asn::from_u32(*customer))
                    {
                        ok = false;
                        break
                    }
                    desired.insert(*customer, set);
                }
            }
            predicted = Some(ok);
            if ok { next = Some(desired); }
        }
        else {
            predicted = Some(false);
        }
        let before = self.config_digest(inst, ca);
        let audit_before = self.audit_tail(inst, ca);
        let aspa_noop = self.model.ca(inst, ca).map(|mca| {
            remove.is_empty() && add.iter().all(|(c, p)| {
                mca.aspas.get(c).map(|cur| {
                    cur.iter().copied().collect::<Vec<u32>>() == {
                        let mut p = p.clone(); p.sort(); p.dedup(); p
                    }
                }).unwrap_or(false)
            })
        }).unwrap_or(false);
        let i = self.world.inst(inst);
        i.enter();
        let updates = api::aspa::AspaDefinitionUpdates {
            add_or_replace: add.iter().map(|(c, p)| {
                api::aspa::AspaDefinition {
                    customer: Asn::from_u32(*c),
                    providers: p.iter().map(|a| Asn::from_u32(*a)).collect(),
                }
            }).collect(),
            remove: remove.iter().map(|c| Asn::from_u32(*c)).collect(),
        };
        let result = block_on(i.mgr().ca_aspas_definitions_update(
            handle(ca), updates, ADMIN
        )).map_err(err_string);
        self.judge(
            "aspa_update", predicted, &result,
            &format!("ca {ca} add {add:?} remove {remove:?}")
        );
        self.check_audit(
            inst, ca, "aspa_update", audit_before, &result, aspa_noop
        );
        match &result {
            Ok(()) => {
                self.state_changing_ops += 1;
                if let (Some(next), Some(mca)) = (
                    next, self.model.ca_mut(inst, ca)
                ) {
                    mca.aspas = next;
                }
                else if let Some(mca) = self.model.ca_mut(inst, ca) {
                    for c in remove { mca.aspas.remove(c); }
                    for (c, p) in add {
                        mca.aspas.insert(*c, p.iter().copied().collect());
                    }
                }
            }
            Err(_) => {
                self.check_refusal_untouched(inst, ca, &before, "aspa_update");
            }
        }
        Self::label(&result)
    }

    fn exec_aspa_providers(
        &mut self, inst: usize, ca: &str, customer: u32,
        added: &[u32], removed: &[u32],
    ) -> String {
        let predicted;
        let mut next: Option<Option<BTreeSet<u32>>> = None;
        if let Some(mca) = self.model.ca(inst, ca) {
            let held = self.held_set(inst, ca).unwrap_or_default();
            let existing = mca.aspas.get(&customer).cloned()
                .unwrap_or_default();
            let mut updated = existing.clone();
            // Krill applies removals first, then additions.
            for r in removed { updated.remove(r); }
            for a in added { updated.insert(*a); }
            if updated == existing {
                // Nothing changes. Krill compares the stored provider list,
                // in the order it was given, with the sorted result: it
                // either sees no change (accepts) or goes on to the
                // entitlement test, which refuses if the customer AS is no
                // longer held. Both answers fit the statement (nothing is
                // created; refusing does not "keep" the unbacked definition
                // any more than accepting does), so that case is not judged.
                predicted = if existing.is_empty()
                    || held.contains_asn(Asn::from_u32(customer))
                {
                    Some(true)
                } else {
                    self.stat("c05.aspa_noop_unheld_not_judged");
                    None
                };
                next = Some(if existing.is_empty() { None } else { Some(existing) });
            }
            else if updated.is_empty() {
                predicted = Some(true);
                next = Some(None);
            }
            else if !held.contains_asn(Asn::from_u32(customer))
                || updated.contains(&customer)
            {
                predicted = Some(false);
            }
            else {
                predicted = Some(true);
                next = Some(Some(updated));
            }
        }
        else {
            predicted = Some(false);
        }
        let before = self.config_digest(inst, ca);
        let audit_before = self.audit_tail(inst, ca);
        let providers_noop = self.model.ca(inst, ca).map(|mca| {
            let existing = mca.aspas.get(&customer).cloned().unwrap_or_default();
            let mut updated = existing.clone();
            for r in removed { updated.remove(r); }
            for a in added { updated.insert(*a); }
            updated == existing
        }).unwrap_or(false);
        let i = self.world.inst(inst);
        i.enter();
        let update = api::aspa::AspaProvidersUpdate {
            added: added.iter().map(|a| Asn::from_u32(*a)).collect(),
            removed: removed.iter().map(|a| Asn::from_u32(*a)).collect(),
        };
        let result = block_on(i.mgr().ca_aspas_update_aspa(
            handle(ca), Asn::from_u32(customer), update, ADMIN
        )).map_err(err_string);
        self.judge(
            "aspa_providers", predicted, &result,
            &format!("ca {ca} customer {customer} +{added:?} -{removed:?}")
        );
        // An update that changes nothing may still be recorded by Krill
        // when the stored provider list was not sorted (the comparison is
        // on the sorted list); only effective updates are judged.
        if !providers_noop {
            self.check_audit(
                inst, ca, "aspa_providers", audit_before, &result, false
            );
        }
        match &result {
            Ok(()) => {
                self.state_changing_ops += 1;
                if let (Some(next), Some(mca)) = (
                    next, self.model.ca_mut(inst, ca)
                ) {
                    match next {
                        Some(set) => { mca.aspas.insert(customer, set); }
                        None => { mca.aspas.remove(&customer); }
                    }
                }
            }
            Err(_) => {
                self.check_refusal_untouched(
                    inst, ca, &before, "aspa_providers"
                );
            }
        }
        Self::label(&result)
    }

    fn exec_bgpsec(
        &mut self, inst: usize, ca: &str,
        add: &[(u32, usize, bool)], remove: &[(u32, usize)],
    ) -> String {
        if self.csrs.is_empty() {
            return "skip:no_csrs".into()
        }
        let n = self.csrs.len();
        let predicted;
        let mut next = None;
        if let Some(mca) = self.model.ca(inst, ca) {
            let held = self.held_set(inst, ca).unwrap_or_default();
            let mut desired = mca.bgpsec.clone();
            let mut ok = true;
            for (asn, idx) in remove {
                if !desired.remove(&(*asn, idx % n)) {
                    ok = false;
                    break
                }
            }
            if ok {
                for (asn, idx, corrupt) in add {
                    if *corrupt || !held.contains_asn(Asn::from_u32(*asn)) {
                        ok = false;
                        break
                    }
                    desired.insert((*asn, idx % n));
                }
            }
            predicted = Some(ok);
            if ok { next = Some(desired); }
        }
        else {
            predicted = Some(false);
        }
        let before = self.config_digest(inst, ca);
        let audit_before = self.audit_tail(inst, ca);
        let bgpsec_noop = self.model.ca(inst, ca).map(|mca| {
            remove.is_empty() && add.iter().all(|(asn, idx, corrupt)| {
                !corrupt && mca.bgpsec.contains(&(*asn, idx % n))
            })
        }).unwrap_or(false);
        let mut defs = Vec::new();
        for (asn, idx, corrupt) in add {
            let mut bytes = self.csrs[idx % n].to_vec();
            if *corrupt {
                // Flip a bit in the signature (last bytes of the CSR).
                let pos = bytes.len() - 5;
                bytes[pos] ^= 0x01;
            }
            match BgpsecCsr::decode(bytes.as_slice()) {
                Ok(csr) => defs.push(api::bgpsec::BgpSecDefinition {
                    asn: Asn::from_u32(*asn), csr,
                }),
                Err(_) => return "skip:csr_undecodable".into(),
            }
        }
        let mut rem = Vec::new();
        for (asn, idx) in remove {
            let csr = BgpsecCsr::decode(self.csrs[idx % n].as_ref()).unwrap();
            rem.push(api::bgpsec::BgpSecAsnKey {
                asn: Asn::from_u32(*asn),
                key: csr.public_key().key_identifier(),
            });
        }
        let i = self.world.inst(inst);
        i.enter();
        let updates = api::bgpsec::BgpSecDefinitionUpdates {
            add: defs, remove: rem,
        };
        let result = block_on(i.mgr().ca_bgpsec_definitions_update(
            handle(ca), updates, ADMIN
        )).map_err(err_string);
        self.judge(
            "bgpsec_update", predicted, &result,
            &format!("ca {ca} add {add:?} remove {remove:?}")
        );
        // Re-adding an identical definition counts as an update in Krill
        // (the stored CSR carries the time it was first processed), so the
        // audit expectation is only checked when something really changes.
        if !bgpsec_noop {
            self.check_audit(
                inst, ca, "bgpsec_update", audit_before, &result, false
            );
        }
        match &result {
            Ok(()) => {
                self.state_changing_ops += 1;
                if let (Some(next), Some(mca)) = (
                    next, self.model.ca_mut(inst, ca)
                ) {
                    mca.bgpsec = next;
                }
            }
            Err(_) => {
                self.check_refusal_untouched(
                    inst, ca, &before, "bgpsec_update"
                );
            }
        }
        Self::label(&result)
    }

    //--- Configuration views (C05)

    /// Digest of everything a refused command must leave untouched:
    /// configuration views, the CA's object set and the repository content.
    pub fn config_digest(&self, inst: usize, ca: &str) -> String {
        hooks::with_faults_suspended(|| {
            let i = self.world.inst(inst);
            if !i.is_up() {
                return String::new()
            }
            let rt = i.rt();
            let mut text = String::new();
            if let Ok(ca) = rt.ca_manager().get_ca(&handle(ca)) {
                let mut roas = ca.configured_roas();
                roas.sort();
                text.push_str(&serde_json::to_string(&roas).unwrap_or_default());
                text.push_str(&serde_json::to_string(
                    &ca.aspas_definitions_show()
                ).unwrap_or_default());
                text.push_str(&serde_json::to_string(
                    &ca.bgpsec_definitions_show()
                ).unwrap_or_default());
                let info = ca.as_ca_info();
                let mut children: Vec<String> = info.children.iter()
                    .map(|c| c.to_string()).collect();
                children.sort();
                text.push_str(&format!("{children:?}"));
                for child in &info.children {
                    if let Ok(ci) = ca.get_child(child) {
                        text.push_str(&serde_json::to_string(&ci.to_info())
                            .unwrap_or_default());
                    }
                }
            }
            text.push_str(&crate::oracles::ca_objects_digest(rt, ca));
            if let Ok((objects, _)) = rp::collect_objects(rt) {
                for (uri, bytes) in objects {
                    text.push_str(&uri);
                    text.push_str(&crate::util::sha256_hex(&bytes)[..16]);
                }
            }
            crate::util::sha256_hex(text.as_bytes())
        })
    }

    /// Number of audit records of a CA and whether the last one is an error.
    pub fn audit_tail(&self, inst: usize, ca: &str) -> (usize, bool) {
        hooks::with_faults_suspended(|| {
            let i = self.world.inst(inst);
            if !i.is_up() {
                return (0, false)
            }
            let crit = api::history::CommandHistoryCriteria {
                before: None, after: None, after_version: None,
                label_includes: None, label_excludes: None,
                offset: 0, rows_limit: None,
            };
            match i.rt().ca_manager().ca_history(&handle(ca), crit) {
                Ok(hist) => {
                    let last_err = hist.commands.last().map(|rec| {
                        matches!(
                            rec.effect,
                            api::history::CommandHistoryResult::Error(_)
                        )
                    }).unwrap_or(false);
                    (hist.total, last_err)
                }
                Err(_) => (0, false)
            }
        })
    }

    /// The audit trail after a command: one error record for a refusal, one
    /// success record for an effective command, nothing for a no-op.
    fn check_audit(
        &mut self, inst: usize, ca: &str, what: &str,
        before: (usize, bool), result: &Result<(), String>, noop: bool,
    ) {
        if !self.oracles.c05 || self.model.ca(inst, ca).is_none() {
            return
        }
        let after = self.audit_tail(inst, ca);
        match result {
            Err(_) => {
                if after.0 != before.0 + 1 || !after.1 {
                    self.violation(
                        "C05", &format!("{what}_refusal_audit"),
                        format!(
                            "{what} on {ca} was refused; expected exactly one \
                             new audit record carrying the error, found {} \
                             new record(s), last is error: {}",
                            after.0 as i64 - before.0 as i64, after.1
                        )
                    );
                }
            }
            Ok(()) => {
                let expect = if noop { 0 } else { 1 };
                if after.0 != before.0 + expect || (expect == 1 && after.1) {
                    self.violation(
                        "C05", &format!("{what}_accept_audit"),
                        format!(
                            "{what} on {ca} was accepted (no-op: {noop}); \
                             expected {expect} new audit record(s), found {}, \
                             last is error: {}",
                            after.0 as i64 - before.0 as i64, after.1
                        )
                    );
                }
            }
        }
    }

    fn check_refusal_untouched(
        &mut self, inst: usize, ca: &str, before: &str, what: &str,
    ) {
        if !self.oracles.c05 || self.model.ca(inst, ca).is_none() {
            return
        }
        let after = self.config_digest(inst, ca);
        if &after != before {
            self.violation(
                "C05", &format!("{what}_refusal_changed_state"),
                format!(
                    "{what} on {ca} was refused but configuration, object \
                     set or repository changed"
                )
            );
        }
    }

    /// After an accepted ROA delta the configuration view equals the model.
    fn check_roa_config_view(&mut self, inst: usize, ca: &str) {
        if !self.oracles.c05 {
            return
        }
        let Some(mca) = self.model.ca(inst, ca) else { return };
        let expected: BTreeSet<(u32, String, u8, Option<String>)> = mca.roas
            .iter().map(|(k, c)| {
                (k.asn, k.prefix.clone(), k.max_len, c.clone())
            }).collect();
        let actual: BTreeSet<(u32, String, u8, Option<String>)> =
            hooks::with_faults_suspended(|| {
                let i = self.world.inst(inst);
                i.rt().ca_manager().get_ca(&handle(ca)).map(|ca| {
                    ca.configured_roas().into_iter().map(|r| {
                        let p = r.roa_configuration.payload;
                        (
                            Asn::from(p.asn).into_u32(),
                            normal_prefix(&p.prefix.to_string()),
                            p.effective_max_length(),
                            r.roa_configuration.comment.clone(),
                        )
                    }).collect()
                }).unwrap_or_default()
            });
        if expected != actual {
            let missing: Vec<_> = expected.difference(&actual).collect();
            let extra: Vec<_> = actual.difference(&expected).collect();
            self.violation(
                "C05", "roa_config_view",
                format!(
                    "configured ROAs of {ca} differ from accepted deltas: \
                     missing {missing:?} extra {extra:?}"
                )
            );
        }
    }

    //--- Caught-up checks

    /// The resource classes of a CA as Krill reports them.
    pub fn class_infos(&self, inst: usize, ca: &str) -> Vec<ClassInfo> {
        hooks::with_faults_suspended(|| {
            let i = self.world.inst(inst);
            if !i.is_up() {
                return Vec::new()
            }
            let Ok(ca) = i.rt().ca_manager().get_ca(&handle(ca)) else {
                return Vec::new()
            };
            let info = ca.as_ca_info();
            let mut out = Vec::new();
            for (rcn, class) in &info.resource_classes {
                let keys = serde_json::to_value(&class.keys)
                    .unwrap_or_default();
                let mut active = None;
                let mut cert_dir = None;
                let mut state = String::new();
                let mut key_ids = Vec::new();
                if let Some(map) = keys.as_object() {
                    for (state_name, st) in map {
                        state = state_name.clone();
                        if let Some(obj) = st.as_object() {
                            for (role, key) in obj {
                                if let Some(id) = key.get("key_id")
                                    .and_then(|k| k.as_str())
                                {
                                    key_ids.push((role.clone(), id.to_string()));
                                }
                                let uri = key.get("incoming_cert")
                                    .and_then(|c| c.get("uri"))
                                    .and_then(|u| u.as_str());
                                if let Some(uri) = uri {
                                    let dir = uri.rfind('/')
                                        .map(|p| uri[..p + 1].to_string());
                                    if role == "active_key" || cert_dir.is_none() {
                                        cert_dir = dir;
                                    }
                                }
                                if role == "active_key" {
                                    active = key.get("key_id")
                                        .and_then(|k| k.as_str())
                                        .map(|s| s.to_string());
                                }
                            }
                        }
                    }
                }
                out.push(ClassInfo {
                    rcn: rcn.to_string(),
                    name_space: class.name_space.clone(),
                    parent: class.parent_handle.to_string(),
                    active_key: active,
                    cert_dir,
                    state,
                    key_ids,
                });
            }
            out.sort_by(|a, b| a.rcn.cmp(&b.rcn));
            out
        })
    }

    /// Whether the resource class with name space `ns` of a CA hangs off the
    /// trust anchor through links that are all alive (child known at the
    /// parent and not suspended). The chain is followed through the
    /// directory in which the class's certificate is published, which names
    /// the issuing CA and its class.
    pub fn class_live(
        &self, inst: usize, name: &str, ns: &str, guard: usize,
    ) -> bool {
        if guard > 8 {
            return false
        }
        let Some(ca) = self.model.ca(inst, name) else { return false };
        let classes = self.class_infos(inst, name);
        let Some(class) = classes.iter().find(|c| c.name_space == ns) else {
            return false
        };
        let Some(link) = ca.parents.get(&class.parent) else { return false };
        let Some(at_parent) = self.model.child_at(
            link.parent_inst, &link.parent_ca, &link.child_handle
        ) else { return false };
        if at_parent.suspended {
            return false
        }
        if link.parent_ca == "ta" {
            return true
        }
        let jail = self.world.inst(0).cfg.rsync_jail();
        let Some(dir) = &class.cert_dir else { return false };
        let Some(rest) = dir.strip_prefix(&jail) else { return false };
        let mut parts = rest.split('/');
        let (Some(pname), Some(pns)) = (parts.next(), parts.next()) else {
            return false
        };
        if pname != link.parent_ca {
            return false
        }
        self.class_live(link.parent_inst, pname, pns, guard + 1)
    }

    /// Directories that legitimately hold unreachable content: resource
    /// classes whose chain to the trust anchor is broken by a removed or
    /// suspended child link, and what deleted CAs left behind.
    pub fn excluded_dirs(&self, repo_inst: usize) -> BTreeSet<String> {
        let jail = self.world.inst(repo_inst).cfg.rsync_jail();
        let mut out = BTreeSet::new();
        for ca in self.model.cas.values() {
            for class in self.class_infos(ca.inst, &ca.name) {
                if !self.class_live(ca.inst, &ca.name, &class.name_space, 0) {
                    out.insert(format!(
                        "{jail}{}/{}/", ca.name, class.name_space
                    ));
                }
            }
        }
        for name in &self.ext.deleted_cas {
            out.insert(format!("{jail}{name}/"));
        }
        out
    }

    /// Whether a CA hangs off the trust anchor through some live class.
    pub fn is_live(&self, inst: usize, name: &str, _guard: usize) -> bool {
        self.class_infos(inst, name).iter().any(|class| {
            self.class_live(inst, name, &class.name_space, 0)
        })
    }

    /// Key identifiers of the active keys of a CA.
    pub fn active_keys(&self, inst: usize, name: &str) -> BTreeSet<String> {
        self.class_infos(inst, name).into_iter()
            .filter_map(|class| class.active_key).collect()
    }

    pub fn check_caught_up(&mut self) {
        self.caught_up_checks += 1;
        let repo_inst = 0;
        if !self.world.inst(repo_inst).is_up() {
            return
        }
        // While an instance is unreachable its CAs cannot follow what
        // their parents do (and vice versa): the statement about the tree
        // is evaluated once the partition has healed and background work
        // has caught up.
        if self.world.insts.iter().any(|i| !i.is_up()) || crate::net::is_cut() {
            self.stat("caught_up_during_partition");
            return
        }
        // While the trust anchor signer is away, requests of the trust
        // anchor's children (certificates, revocations) wait at the proxy:
        // background work cannot catch up in the sense of C01-C03 until
        // the signing session has taken place. (The key-roll invariants of
        // C04 hold at every instant and are evaluated all the same.)
        if self.ext.signer_offline
            && (self.oracles.c01 || self.oracles.c02 || self.oracles.c03)
        {
            self.stat("caught_up_while_signer_offline");
            return
        }
        let excluded = self.excluded_dirs(repo_inst);
        if std::env::var("VERIF_DEBUG").is_ok() {
            eprintln!("step {} excluded dirs: {excluded:?}", self.step);
        }
        let rpres = match self.world.rp_walk(repo_inst, &excluded) {
            Ok(res) => res,
            Err(err) => {
                self.violation(
                    "HARNESS", "rp_walk", format!("RP walk failed: {err}")
                );
                return
            }
        };
        if self.oracles.c01 {
            let found = self.check_c01(repo_inst, &rpres);
            let eligible = found.iter().all(|(rule, _)| {
                matches!(
                    rule.as_str(),
                    "rp_rejects" | "unreachable_object"
                        | "present_but_unlisted" | "no_manifest"
                        | "vrp_missing" | "aspa_mismatch"
                        | "router_key_mismatch" | "api_objects"
                )
            });
            // With message faults flowing, synchronisations may have failed
            // several times in a row and wait for their next retry: the
            // statement is about the state once the faults have stopped.
            // That covers every kind of difference: a withdrawal that did
            // not get through leaves an extra payload.
            let net_faults = crate::net::faults_fired() > self.net_faults_seen;
            if !found.is_empty()
                && ((eligible
                    && self.ext.detach_events + self.ext.entitlement_events > 0)
                    || net_faults)
                && !self.in_second_chance
            {
                // A child was removed or suspended, a CA deleted, or an
                // entitlement or a parent's own certificate changed: the far
                // side (the child) only learns of that at its next regular
                // refresh - in RPKI a parent cannot notify a child. Until
                // then the child's own publications may overclaim or be
                // unreachable. Apply that refresh, then judge.
                self.stat("c01.second_chance");
                self.in_second_chance = true;
                self.net_faults_seen = crate::net::faults_fired();
                let was_quiet = crate::net::set_quiet(true);
                // One refresh round carries a change one level down; the
                // tree may be several levels deep (a second parent can put
                // a whole sub-tree below another one). Stop as soon as the
                // tree is clean, give up after six rounds.
                let mut last: Option<(Vec<(String, String)>, RpResult)> = None;
                for round in 0..6 {
                    for idx in 0..self.world.insts.len() {
                        if self.world.inst(idx).is_up() {
                            self.world.inst(idx).enter();
                            let _ = block_on(
                                self.world.inst(idx).mgr().cas_refresh_all()
                            );
                        }
                    }
                    match crate::oracles::pump_stepwise(self) {
                        Guarded::Ok(true) => { }
                        _ => { last = None; break }
                    }
                    if round == 0 {
                        continue
                    }
                    self.sync_model_after_pump();
                    let excluded = self.excluded_dirs(repo_inst);
                    match self.world.rp_walk(repo_inst, &excluded) {
                        Ok(rpres2) => {
                            let found2 = self.check_c01(repo_inst, &rpres2);
                            let clean = found2.is_empty();
                            last = Some((found2, rpres2));
                            if clean {
                                break
                            }
                            self.stat("c01.second_chance_extra_round");
                        }
                        Err(_) => { last = None; break }
                    }
                }
                self.in_second_chance = false;
                crate::net::set_quiet(was_quiet);
                if let Some((found2, rpres2)) = last {
                    for (rule, detail) in found2 {
                        self.violation("C01", &rule, detail);
                    }
                    crate::oracles::at_caught_up(self, repo_inst, &rpres2);
                    return
                }
                for (rule, detail) in found {
                    self.violation("C01", &rule, detail);
                }
            }
            else {
                for (rule, detail) in found {
                    self.violation("C01", &rule, detail);
                }
            }
        }
        crate::oracles::at_caught_up(self, repo_inst, &rpres);
    }

    fn check_c01(
        &mut self, repo_inst: usize, rpres: &RpResult,
    ) -> Vec<(String, String)> {
        let mut found: Vec<(String, String)> = Vec::new();
        for issue in rpres.issues.clone() {
            let rule = if issue.starts_with("listed but missing") {
                "listed_but_missing"
            } else if issue.starts_with("present but unlisted") {
                "present_but_unlisted"
            } else if issue.starts_with("unreachable object") {
                "unreachable_object"
            } else if issue.contains("has no manifest") {
                "no_manifest"
            } else if issue.contains("stale") {
                "stale"
            } else {
                "rp_rejects"
            };
            found.push((rule.to_string(), issue));
        }
        let jail = self.world.inst(repo_inst).cfg.rsync_jail();
        let mut claimed_keys = BTreeSet::new();
        let cas: Vec<MCa> = self.model.cas.values().cloned().collect();
        for ca in cas {
            if ca.repo_inst != repo_inst {
                continue
            }
            let dir = format!("{jail}{}/", ca.name);
            let certs: Vec<&rp::CaCertFact> = rpres.ca_certs.iter()
                .filter(|c| c.ca_repository.starts_with(&dir)).collect();
            let mut exp_vrps = BTreeSet::new();
            let mut exp_aspas = BTreeSet::new();
            let mut exp_rk = BTreeSet::new();
            let mut act_vrps = BTreeSet::new();
            let mut act_aspas = BTreeSet::new();
            let mut act_rk = BTreeSet::new();
            let active = self.active_keys(ca.inst, &ca.name);
            for cert in &certs {
                claimed_keys.insert(cert.subject_key);
                if let Some(v) = rpres.vrps_by_key.get(&cert.subject_key) {
                    act_vrps.extend(v.iter().cloned());
                }
                if let Some(v) = rpres.aspas_by_key.get(&cert.subject_key) {
                    act_aspas.extend(v.iter().cloned());
                }
                if let Some(v) = rpres.router_keys_by_key.get(&cert.subject_key) {
                    act_rk.extend(v.iter().cloned());
                }
                // Only the active key of a class signs products; during a
                // roll the other key may hold a different certificate.
                if !active.contains(&cert.subject_key.to_string()) {
                    continue
                }
                for (key, _) in &ca.roas {
                    let spec_set = prefix_set(&key.prefix);
                    if cert.resources.contains(&spec_set) {
                        exp_vrps.insert(Vrp {
                            asn: key.asn,
                            prefix: key.prefix.clone(),
                            max_len: key.max_len,
                        });
                    }
                }
                for (customer, providers) in &ca.aspas {
                    if cert.resources.contains_asn(Asn::from_u32(*customer)) {
                        exp_aspas.insert(AspaPayload {
                            customer: *customer,
                            providers: providers.iter().copied().collect(),
                        });
                    }
                }
                for (asn, idx) in &ca.bgpsec {
                    if cert.resources.contains_asn(Asn::from_u32(*asn)) {
                        if let Ok(csr) = BgpsecCsr::decode(
                            self.csrs[*idx].as_ref()
                        ) {
                            exp_rk.insert(RouterKey {
                                asn: *asn,
                                key_id: csr.public_key().key_identifier()
                                    .to_string(),
                            });
                        }
                    }
                }
            }
            if exp_vrps != act_vrps {
                let missing: Vec<String> = exp_vrps.difference(&act_vrps)
                    .map(|v| v.to_string()).collect();
                let extra: Vec<String> = act_vrps.difference(&exp_vrps)
                    .map(|v| v.to_string()).collect();
                if !missing.is_empty() {
                    found.push((
                        "vrp_missing".to_string(),
                        format!(
                            "CA {}: configured and covered but not validated: \
                             {missing:?}", ca.name
                        )
                    ));
                }
                if !extra.is_empty() {
                    found.push((
                        "vrp_extra".to_string(),
                        format!(
                            "CA {}: validated but not configured/covered: \
                             {extra:?}", ca.name
                        )
                    ));
                }
            }
            if exp_aspas != act_aspas {
                found.push((
                    "aspa_mismatch".to_string(),
                    format!(
                        "CA {}: ASPA payloads differ: expected {exp_aspas:?} \
                         validated {act_aspas:?}", ca.name
                    )
                ));
            }
            if exp_rk != act_rk {
                found.push((
                    "router_key_mismatch".to_string(),
                    format!(
                        "CA {}: router keys differ: expected {exp_rk:?} \
                         validated {act_rk:?}", ca.name
                    )
                ));
            }
            if !exp_vrps.is_empty() { self.stat("c01.ca_with_vrps"); }
            if !exp_aspas.is_empty() { self.stat("c01.ca_with_aspas"); }
            if !exp_rk.is_empty() { self.stat("c01.ca_with_router_keys"); }
            if let Some(p) = self.check_api_objects(repo_inst, &ca, &exp_vrps) {
                found.push(("api_objects".to_string(), p));
            }
        }
        // Payloads under keys that belong to nobody we know.
        for (key, vrps) in &rpres.vrps_by_key {
            if !claimed_keys.contains(key) && !vrps.is_empty() {
                found.push((
                    "vrp_extra".to_string(),
                    format!(
                        "payloads validated under key {key} which belongs \
                         to no configured CA: {vrps:?}"
                    )
                ));
            }
        }
        found
    }

    /// The objects the API reports for a configuration are in the repository.
    fn check_api_objects(
        &mut self, repo_inst: usize, ca: &MCa, exp_vrps: &BTreeSet<Vrp>,
    ) -> Option<String> {
        let i = self.world.inst(ca.inst);
        if !i.is_up() {
            return None
        }
        let Ok((objects, _)) = self.world.objects(repo_inst) else {
            return None
        };
        let Ok(actual) = hooks::with_faults_suspended(|| {
            i.rt().ca_manager().get_ca(&handle(&ca.name))
        }) else { return None };
        let mut problems = Vec::new();
        for configured in actual.configured_roas() {
            let p = configured.roa_configuration.payload;
            let vrp = Vrp {
                asn: Asn::from(p.asn).into_u32(),
                prefix: normal_prefix(&p.prefix.to_string()),
                max_len: p.effective_max_length(),
            };
            if exp_vrps.contains(&vrp) && configured.roa_objects.is_empty() {
                problems.push(format!("{vrp}: API reports no object"));
            }
            for obj in &configured.roa_objects {
                match objects.get(&obj.uri.to_string()) {
                    Some(bytes) => {
                        if bytes != &obj.base64.to_bytes() {
                            problems.push(format!(
                                "{}: repository content differs from API",
                                obj.uri
                            ));
                        }
                    }
                    None => {
                        if self.is_live(ca.inst, &ca.name, 0) {
                            problems.push(format!(
                                "{}: reported by API, not in repository",
                                obj.uri
                            ));
                        }
                    }
                }
            }
        }
        problems.into_iter().next().map(|p| format!("CA {}: {p}", ca.name))
    }
}

/// Calls `op` for the certificate resources of every `active_key`.
pub fn collect_active(
    value: &serde_json::Value, op: &mut dyn FnMut(&ResourceSet),
) {
    match value {
        serde_json::Value::Object(map) => {
            if let Some(key) = map.get("active_key") {
                collect_incoming(key, op);
            }
            for (name, v) in map {
                if name != "active_key" {
                    collect_active(v, op);
                }
            }
        }
        serde_json::Value::Array(items) => {
            for v in items {
                collect_active(v, op);
            }
        }
        _ => { }
    }
}

/// Calls `op` for the `resources` of every `incoming_cert` in the JSON.
pub fn collect_incoming(
    value: &serde_json::Value, op: &mut dyn FnMut(&ResourceSet),
) {
    match value {
        serde_json::Value::Object(map) => {
            if let Some(cert) = map.get("incoming_cert") {
                if let Some(res) = cert.get("resources") {
                    let asn = res.get("asn").and_then(|v| v.as_str())
                        .unwrap_or("");
                    let v4 = res.get("ipv4").and_then(|v| v.as_str())
                        .unwrap_or("");
                    let v6 = res.get("ipv6").and_then(|v| v.as_str())
                        .unwrap_or("");
                    if let Ok(set) = ResourceSet::from_strs(asn, v4, v6) {
                        op(&set);
                    }
                }
            }
            for v in map.values() {
                collect_incoming(v, op);
            }
        }
        serde_json::Value::Array(items) => {
            for v in items {
                collect_incoming(v, op);
            }
        }
        _ => { }
    }
}

pub fn prefix_set(prefix: &str) -> ResourceSet {
    if prefix.contains(':') {
        ResourceSet::from_strs("", "", prefix).unwrap_or_default()
    }
    else {
        ResourceSet::from_strs("", prefix, "").unwrap_or_default()
    }
}

/// Canonical text for a prefix printed by Krill.
pub fn normal_prefix(text: &str) -> String {
    let Some((addr, len)) = text.split_once('/') else {
        return text.to_string()
    };
    if let Ok(a) = addr.parse::<std::net::Ipv6Addr>() {
        format!("{a}/{len}")
    }
    else if let Ok(a) = addr.parse::<std::net::Ipv4Addr>() {
        format!("{a}/{len}")
    }
    else {
        text.to_string()
    }
}

pub fn now_secs() -> i64 {
    seams::now_secs()
}
