//! C12 / C16: the provisioning and publication endpoints fed with
//! harness-built CMS messages.
//!
//! The harness plays remote children and publishers: it owns their
//! identity keys (held in the instance's signer, drawn from the key pool),
//! builds RFC 6492 / RFC 8181 messages, signs them with a chosen key and
//! hands the bytes to `CaManager::rfc6492` / `RepositoryManager::rfc8181`
//! the way the HTTP layer does. The "network" between child and parent is
//! the simulator: it delivers messages unchanged, signed with another key,
//! with another claimed sender, with one flipped bit, truncated or replaced
//! by structured garbage (validly signed or not).

use std::collections::BTreeSet;
use std::str::FromStr;
use bytes::Bytes;
use rpki::ca::idcert::IdCert;
use rpki::ca::idexchange::{
    ChildHandle, PublisherHandle, PublisherRequest, RepoInfo,
};
use rpki::ca::provisioning::{
    self, IssuanceRequest, Payload, ProvisioningCms, RequestResourceLimit,
    ResourceClassName, RevocationRequest,
};
use rpki::ca::publication::{
    self, Base64, PublicationCms, Publish, PublishDelta,
};
use rpki::crypto::KeyIdentifier;
use rpki::repository::resources::ResourceSet;
use rpki::uri;
use krill::api;
use krill::server::runtime::KrillRuntime;
use crate::history::{Oracles, Runner, Violation};
use crate::hooks;
use crate::ops::GenCfg;
use crate::rng::Rng;
use crate::runs::{RunReport, START_SECS};
use crate::seams;
use crate::sim::{handle, World};
use crate::util::{block_on, sha256_hex};
use crate::world::{self, guarded, Guarded, ADMIN};

const PARENT: &str = "testbed";

struct Ident {
    cert: IdCert,
    key: KeyIdentifier,
}

fn new_ident(rt: &KrillRuntime) -> Result<Ident, String> {
    let cert = rt.signer().create_self_signed_id_cert()
        .map_err(|e| e.to_string())?;
    let key = cert.public_key().key_identifier();
    Ok(Ident { cert, key })
}

/// A digest of everything a refused request must leave alone.
fn state_digest(r: &Runner) -> String {
    hooks::with_faults_suspended(|| {
        use krill::commons::eventsourcing::Aggregate;
        let rt = r.world.inst(0).rt();
        let mut text = String::new();
        if let Ok(ca) = rt.ca_manager().get_ca(&handle(PARENT)) {
            text.push_str(&format!("v{};", ca.version()));
            let info = ca.as_ca_info();
            let mut children: Vec<String> = info.children.iter().map(|c| {
                ca.get_child(c).map(|d| {
                    let mut keys: Vec<String> = d.used_keys.iter()
                        .map(|(k, s)| format!("{k}:{s:?}")).collect();
                    keys.sort();
                    format!(
                        "{c}:{}:{:?}:{}:{keys:?}", d.resources, d.state,
                        d.id_cert.hash
                    )
                }).unwrap_or_default()
            }).collect();
            children.sort();
            text.push_str(&format!("{children:?};"));
        }
        text.push_str(&crate::oracles::ca_objects_digest(rt, PARENT));
        if let Ok((objects, _)) = crate::rp::collect_objects(rt) {
            for (uri, bytes) in objects {
                text.push_str(&uri);
                text.push_str(&sha256_hex(&bytes)[..16]);
            }
        }
        sha256_hex(text.as_bytes())
    })
}

#[derive(Debug)]
enum Outcome {
    /// The endpoint returned an error (HTTP error status).
    Refused(String),
    /// A signed reply that validates under the server's identity key.
    Reply(String),
    /// A reply that does not decode or validate.
    BadReply(String),
    Panic(String),
}

fn call_6492(
    r: &Runner, bytes: Bytes, server_id: &IdCert,
) -> (Outcome, Option<provisioning::Message>) {
    let rt = r.world.inst(0).rt().clone();
    r.world.inst(0).enter();
    let res = guarded(|| {
        rt.ca_manager().rfc6492(&handle(PARENT), bytes, None, &ADMIN, &rt)
    });
    match res {
        Guarded::Ok(Ok(reply)) => {
            match ProvisioningCms::decode(reply.as_ref()) {
                Ok(cms) => {
                    if let Err(err) = cms.validate(server_id.public_key()) {
                        return (Outcome::BadReply(format!(
                            "reply does not validate under the server's \
                             identity key: {err}"
                        )), None)
                    }
                    let msg = cms.into_message();
                    let kind = match msg.payload() {
                        Payload::ErrorResponse(e) => {
                            format!("error:{}", e.status())
                        }
                        other => other.payload_type().to_string(),
                    };
                    (Outcome::Reply(kind), Some(msg))
                }
                Err(err) => (Outcome::BadReply(format!(
                    "reply does not decode: {err}"
                )), None),
            }
        }
        Guarded::Ok(Err(err)) => (Outcome::Refused(err.to_string()), None),
        Guarded::Panic(msg) => (Outcome::Panic(msg), None),
        Guarded::Fatal(msg) => (Outcome::Panic(format!("exit: {msg}")), None),
        other => (Outcome::Panic(format!("{other:?}")), None),
    }
}

fn call_8181(
    r: &Runner, publisher: &str, bytes: Bytes, server_id: &IdCert,
) -> (Outcome, Option<publication::Message>) {
    let rt = r.world.inst(0).rt().clone();
    r.world.inst(0).enter();
    let handle = PublisherHandle::from_str(publisher).unwrap();
    let res = guarded(|| rt.repo_manager().rfc8181(handle, bytes, &rt));
    match res {
        Guarded::Ok(Ok(reply)) => {
            match PublicationCms::decode(reply.as_ref()) {
                Ok(cms) => {
                    if let Err(err) = cms.validate(server_id.public_key()) {
                        return (Outcome::BadReply(format!(
                            "reply does not validate under the server's \
                             identity key: {err}"
                        )), None)
                    }
                    let msg = cms.into_message();
                    let kind = match &msg {
                        publication::Message::Reply(
                            publication::Reply::ErrorReply(_)
                        ) => "error".to_string(),
                        publication::Message::Reply(
                            publication::Reply::Success
                        ) => "success".to_string(),
                        publication::Message::Reply(
                            publication::Reply::List(_)
                        ) => "list".to_string(),
                        _ => "query?".to_string(),
                    };
                    (Outcome::Reply(kind), Some(msg))
                }
                Err(err) => (Outcome::BadReply(format!(
                    "reply does not decode: {err}"
                )), None),
            }
        }
        Guarded::Ok(Err(err)) => (Outcome::Refused(err.to_string()), None),
        Guarded::Panic(msg) => (Outcome::Panic(msg), None),
        Guarded::Fatal(msg) => (Outcome::Panic(format!("exit: {msg}")), None),
        other => (Outcome::Panic(format!("{other:?}")), None),
    }
}

fn is_acted_upon(outcome: &Outcome) -> bool {
    matches!(outcome, Outcome::Reply(kind) if !kind.starts_with("error"))
}

pub fn run(seed: u64) -> RunReport {
    let t0 = std::time::Instant::now();
    let mut report = RunReport {
        profile: "c12".into(), seed, ..Default::default()
    };
    let base = world::make_run_dir(seed, "c12");
    hooks::state().reset_for_run(&base, true);
    seams::set_seed(seed);
    seams::set_thread_stream(0);
    seams::set_thread_skew_secs(0);
    seams::enable(true);
    let root = Rng::new(seed);
    let mut cfg_rng = root.fork("config");
    let mut cfg = world::draw_inst_cfg("a", &mut cfg_rng, false);
    cfg.disk = cfg_rng.chance(1, 2);
    report.config = format!("{cfg:?}");
    let mut w = World::new(&base, START_SECS);
    w.add_instance(cfg);
    let mut r = Runner::new(
        w, root.fork("ops"), GenCfg::default(), Oracles::default()
    );
    match guarded(|| r.world.insts[0].start()) {
        Guarded::Ok(Ok(())) => { }
        other => {
            report.harness_error = Some(format!("start: {other:?}"));
            world::remove_run_dir(&base);
            return report
        }
    }
    r.exec_pump();
    let mut rng = root.fork("c12");
    let mut violations: Vec<Violation> = Vec::new();
    let mut log: Vec<String> = Vec::new();
    let mut cases: BTreeSet<String> = BTreeSet::new();
    let mut step = 0usize;
    macro_rules! fail {
        ($prop:expr, $rule:expr, $($arg:tt)*) => {
            violations.push(Violation {
                prop: $prop.into(), rule: $rule.into(),
                detail: format!($($arg)*), step,
            })
        };
    }
    let setup = (|| -> Result<_, String> {
        let rt = r.world.inst(0).rt().clone();
        let inst = r.world.inst(0);
        inst.enter();
        let a = new_ident(&rt)?;
        let b = new_ident(&rt)?;
        let a2 = new_ident(&rt)?;
        let rogue = new_ident(&rt)?;
        let res_a = ResourceSet::from_strs(
            "AS65000-AS65009", "10.0.0.0/16", "2001:db8::/48"
        ).unwrap();
        let res_b = ResourceSet::from_strs(
            "AS65010-AS65019", "10.1.0.0/16", ""
        ).unwrap();
        for (name, ident, res) in [("kidA", &a, &res_a), ("kidB", &b, &res_b)] {
            let req = api::admin::AddChildRequest {
                handle: ChildHandle::from_str(name).unwrap(),
                resources: res.clone(),
                id_cert: ident.cert.clone(),
            };
            block_on(inst.mgr().ca_add_child(handle(PARENT), req, ADMIN))
                .map_err(|e| format!("add child {name}: {e:?}"))?;
        }
        for (name, ident) in [("pubA", &a), ("pubB", &b)] {
            let req = PublisherRequest::new(
                Base64::from_content(&ident.cert.to_bytes()),
                PublisherHandle::from_str(name).unwrap(), None
            );
            rt.repo_manager().create_publisher(req, &ADMIN)
                .map_err(|e| format!("add publisher {name}: {e}"))?;
        }
        let parent_id: IdCert = rt.ca_manager().get_ca(&handle(PARENT))
            .map_err(|e| e.to_string())
            .and_then(|ca| IdCert::try_from(ca.id_cert())
                .map_err(|e| e.to_string()))?;
        let repo_response = rt.repo_manager().repository_response(
            &PublisherHandle::from_str("pubA").unwrap(), &rt
        ).map_err(|e| e.to_string())?;
        let repo_id = repo_response.validate().map_err(|e| e.to_string())?;
        Ok((a, b, a2, rogue, res_a, res_b, parent_id, repo_id))
    })();
    let (a, b, a2, rogue, res_a, _res_b, mut parent_id, repo_id) = match setup {
        Ok(x) => x,
        Err(err) => {
            report.harness_error = Some(format!("setup: {err}"));
            world::remove_run_dir(&base);
            return report
        }
    };
    let rt = r.world.inst(0).rt().clone();
    let jail = r.world.inst(0).cfg.rsync_jail();
    let rrdp = r.world.inst(0).cfg.rrdp_base_uri();
    let sender = |name: &str| rpki::ca::idexchange::SenderHandle::from_str(name).unwrap();
    let recipient = |name: &str| {
        rpki::ca::idexchange::RecipientHandle::from_str(name).unwrap()
    };
    let sign6492 = |msg: provisioning::Message, key: &KeyIdentifier| -> Bytes {
        rt.signer().create_rfc6492_cms(msg, key).expect("sign").to_bytes()
    };
    let sign8181 = |msg: publication::Message, key: &KeyIdentifier| -> Bytes {
        rt.signer().create_rfc8181_cms(msg, key).expect("sign").to_bytes()
    };
    let rcn = ResourceClassName::from(0u32);

    // A panic in release builds is the end of the daemon (panic = abort),
    // and in this build it may leave a lock poisoned: stop the run there.
    macro_rules! stop_if_dead {
        ($label:lifetime) => {
            if violations.iter().any(|v| {
                v.rule == "panic" || v.rule == "daemon_exit"
            }) {
                break $label
            }
        };
    }
    #[allow(clippy::never_loop)]
    'run: loop {
    //--- 1. Valid list by A, and its resources.
    step += 1;
        stop_if_dead!('run);
    let valid_list = sign6492(
        provisioning::Message::list(sender("kidA"), recipient(PARENT)), &a.key
    );
    let (out, msg) = call_6492(&r, valid_list.clone(), &parent_id);
    log.push(format!("list A by A -> {out:?}"));
    cases.insert("6492.valid_list".into());
    match (&out, msg) {
        (Outcome::Reply(kind), Some(msg)) if kind == "list_response" => {
            if let Payload::ListResponse(list) = msg.payload() {
                for class in list.classes() {
                    if !res_a.contains(class.resource_set()) {
                        fail!(
                            "C12", "list_beyond_entitlement",
                            "the list reply for kidA offers {} (entitled: {})",
                            class.resource_set(), res_a
                        );
                    }
                }
            }
        }
        _ => fail!(
            "C12", "valid_request_refused",
            "a list request of kidA signed with its registered key: {out:?}"
        ),
    }

    //--- 2. Signing key x claimed sender matrix.
    let idents: Vec<(&str, &Ident)> = vec![
        ("kidA's key", &a), ("kidB's key", &b), ("an unregistered key", &rogue),
    ];
    for claimed in ["kidA", "kidB", "nobody"] {
        for (key_name, ident) in &idents {
            for rcpt in [PARENT, "somebody-else"] {
                step += 1;
        stop_if_dead!('run);
                let msg = provisioning::Message::list(
                    sender(claimed), recipient(rcpt)
                );
                let bytes = sign6492(msg, &ident.key);
                let before = state_digest(&r);
                let (out, _) = call_6492(&r, bytes, &parent_id);
                let registered = (claimed == "kidA" && *key_name == "kidA's key")
                    || (claimed == "kidB" && *key_name == "kidB's key");
                cases.insert(format!(
                    "6492.list.{claimed}.{}.{}", key_name.replace(' ', "_"),
                    if rcpt == PARENT { "rcpt_ok" } else { "rcpt_other" }
                ));
                log.push(format!(
                    "list claimed {claimed} signed with {key_name} to {rcpt} \
                     -> {out:?}"
                ));
                if let Outcome::Panic(msg) = &out {
                    fail!("C16", "panic", "provisioning endpoint: {msg}");
                }
                if let Outcome::BadReply(msg) = &out {
                    fail!("C12", "bad_reply", "{msg}");
                }
                if !registered && is_acted_upon(&out) {
                    fail!(
                        "C12", "foreign_key_accepted",
                        "a list request claiming sender {claimed}, signed \
                         with {key_name}, was answered: {out:?}"
                    );
                }
                if registered && rcpt == PARENT && !is_acted_upon(&out) {
                    fail!(
                        "C12", "valid_request_refused",
                        "list request of {claimed} with its own key: {out:?}"
                    );
                }
                if !registered && state_digest(&r) != before {
                    fail!(
                        "C12", "refused_request_changed_state",
                        "list claiming {claimed} signed with {key_name}"
                    );
                }
            }
        }
    }

    //--- 3. Issuance within and beyond the entitlement; other child's key.
    let repo_info = RepoInfo::new(
        uri::Rsync::from_str(&format!("{jail}pubA/")).unwrap(),
        uri::Https::from_str(&format!("{rrdp}notification.xml")).ok(),
    );
    let ca_key_a = rt.signer().create_key().expect("key");
    let ca_key_b = rt.signer().create_key().expect("key");
    let csr_a = rt.signer().sign_csr(&repo_info, "0", &ca_key_a).expect("csr");
    let csr_b = rt.signer().sign_csr(&repo_info, "0", &ca_key_b).expect("csr");
    for (who, ident, csr) in [("kidA", &a, &csr_a), ("kidB", &b, &csr_b)] {
        step += 1;
        stop_if_dead!('run);
        let mut limit = RequestResourceLimit::new();
        let greedy = rng.chance(1, 2);
        if greedy {
            // Ask for more than the entitlement.
            limit.with_ipv4(
                ResourceSet::from_strs("", "10.0.0.0/8", "").unwrap()
                    .to_ip_resources_v4().to_blocks().unwrap().into()
            );
        }
        let msg = provisioning::Message::issue(
            sender(who), recipient(PARENT),
            IssuanceRequest::new(rcn.clone(), limit, csr.clone())
        );
        let (out, reply) = call_6492(&r, sign6492(msg, &ident.key), &parent_id);
        log.push(format!("issue {who} -> {out:?}"));
        cases.insert("6492.issue".into());
        match reply.as_ref().map(|m| m.payload()) {
            Some(Payload::IssueResponse(resp)) => {
                let cert = resp.clone().into_issued();
                let got = ResourceSet::try_from(cert.cert())
                    .unwrap_or_default();
                let entitled = if who == "kidA" { &res_a } else { &_res_b };
                if !entitled.contains(&got) {
                    fail!(
                        "C12", "issued_beyond_entitlement",
                        "{who} obtained {got}, entitled to {entitled}"
                    );
                }
            }
            // Asking for more than the entitlement may be refused
            // outright.
            _ if greedy && !is_acted_upon(&out) => { }
            _ => fail!(
                "C12", "valid_request_refused", "issue by {who}: {out:?}"
            ),
        }
    }
    // A request limit narrows the certificate: exactly entitlement ∩ limit
    // for the limited family, the whole entitlement for the others (C02).
    {
        step += 1;
        stop_if_dead!('run);
        let (limit_v4, expect_v4) = *rng.pick(&[
            ("10.0.128.0/17", "10.0.128.0/17"),
            ("10.0.0.0/17, 10.2.0.0/16", "10.0.0.0/17"),
            ("10.0.4.0/24, 10.0.9.0/24", "10.0.4.0/24, 10.0.9.0/24"),
        ]);
        let mut limit = RequestResourceLimit::new();
        limit.with_ipv4(
            ResourceSet::from_strs("", limit_v4, "").unwrap()
                .to_ip_resources_v4().to_blocks().unwrap().into()
        );
        let msg = provisioning::Message::issue(
            sender("kidA"), recipient(PARENT),
            IssuanceRequest::new(rcn.clone(), limit, csr_a.clone())
        );
        let (out, reply) = call_6492(&r, sign6492(msg, &a.key), &parent_id);
        log.push(format!("issue kidA limited to {limit_v4} -> {out:?}"));
        cases.insert("6492.issue_limited".into());
        match reply.as_ref().map(|m| m.payload()) {
            Some(Payload::IssueResponse(resp)) => {
                let cert = resp.clone().into_issued();
                let got = ResourceSet::try_from(cert.cert())
                    .unwrap_or_default();
                let expected = ResourceSet::from_strs(
                    "AS65000-AS65009", expect_v4, "2001:db8::/48"
                ).unwrap();
                if got != expected {
                    fail!(
                        "C02", "issued_not_exact_with_limit",
                        "kidA (entitled to {res_a}) asked for a \
                         certificate limited to IPv4 {limit_v4} and \
                         obtained {got}, expected {expected}"
                    );
                }
            }
            // A limit that reaches outside the entitlement may be refused
            // outright.
            _ if limit_v4 != expect_v4 && !is_acted_upon(&out) => { }
            _ => fail!(
                "C12", "valid_request_refused",
                "issue by kidA limited to {limit_v4}: {out:?}"
            ),
        }
    }
    // A signs a request for B's CSR key under its own name: allowed (it
    // becomes A's key). A revokes B's key: must not touch B.
    step += 1;
        stop_if_dead!('run);
    let before_b = hooks::with_faults_suspended(|| {
        rt.ca_manager().get_ca(&handle(PARENT)).ok().and_then(|ca| {
            ca.get_child(&ChildHandle::from_str("kidB").unwrap()).ok()
                .map(|d| format!("{:?}", {
                    let mut k: Vec<String> = d.used_keys.iter()
                        .map(|(k, s)| format!("{k}:{s:?}")).collect();
                    k.sort();
                    k
                }))
        })
    });
    let msg = provisioning::Message::revoke(
        sender("kidA"), recipient(PARENT),
        RevocationRequest::new(rcn.clone(), ca_key_b)
    );
    let (out, _) = call_6492(&r, sign6492(msg, &a.key), &parent_id);
    log.push(format!("revoke B's key by A -> {out:?}"));
    cases.insert("6492.revoke_foreign".into());
    let after_b = hooks::with_faults_suspended(|| {
        rt.ca_manager().get_ca(&handle(PARENT)).ok().and_then(|ca| {
            ca.get_child(&ChildHandle::from_str("kidB").unwrap()).ok()
                .map(|d| format!("{:?}", {
                    let mut k: Vec<String> = d.used_keys.iter()
                        .map(|(k, s)| format!("{k}:{s:?}")).collect();
                    k.sort();
                    k
                }))
        })
    });
    if before_b != after_b {
        fail!(
            "C12", "foreign_certificate_revoked",
            "kidA's revocation request for kidB's key changed kidB: \
             {before_b:?} -> {after_b:?} ({out:?})"
        );
    }

    //--- 3b. A suspended child whose entitlement shrank calls in: its
    // (validly signed) list request wakes it up; what the reply offers and
    // carries must lie within the entitlement as it is now.
    if rng.chance(2, 3) {
        step += 1;
        stop_if_dead!('run);
        // kidB holds a certificate for its whole entitlement.
        let msg = provisioning::Message::issue(
            sender("kidB"), recipient(PARENT),
            IssuanceRequest::new(
                rcn.clone(), RequestResourceLimit::new(), csr_b.clone()
            )
        );
        let (out, _) = call_6492(&r, sign6492(msg, &b.key), &parent_id);
        log.push(format!("issue kidB (whole entitlement) -> {out:?}"));
        let inst = r.world.inst(0);
        inst.enter();
        let kid_b = ChildHandle::from_str("kidB").unwrap();
        let suspended = block_on(inst.mgr().ca_child_update(
            handle(PARENT), kid_b.clone(),
            api::admin::UpdateChildRequest::suspend(), ADMIN
        ));
        let smaller = *rng.pick(&[
            ("AS65010-AS65019", "10.1.0.0/24"),
            ("AS65012", "10.1.0.0/16"),
            ("", "10.1.128.0/17"),
        ]);
        let new_res = ResourceSet::from_strs(smaller.0, smaller.1, "")
            .unwrap();
        let shrunk = block_on(inst.mgr().ca_child_update(
            handle(PARENT), kid_b.clone(),
            api::admin::UpdateChildRequest::resources(new_res.clone()),
            ADMIN
        ));
        log.push(format!(
            "suspend kidB -> {}, shrink to {new_res} -> {}",
            suspended.is_ok(), shrunk.is_ok()
        ));
        if suspended.is_ok() && shrunk.is_ok() {
            let list = sign6492(
                provisioning::Message::list(sender("kidB"), recipient(PARENT)),
                &b.key
            );
            let (out, msg) = call_6492(&r, list, &parent_id);
            log.push(format!("list by suspended, shrunk kidB -> {out:?}"));
            cases.insert("6492.list_wakes_shrunk_child".into());
            if let Some(msg) = msg {
                if let Payload::ListResponse(list) = msg.payload() {
                    for class in list.classes() {
                        if !new_res.contains(class.resource_set()) {
                            fail!(
                                "C12", "list_beyond_entitlement",
                                "the list reply for kidB (suspended, then \
                                 reduced to {new_res}) offers {}",
                                class.resource_set()
                            );
                        }
                        for issued in class.issued_certs() {
                            let got = ResourceSet::try_from(issued.cert())
                                .unwrap_or_default();
                            if !new_res.contains(&got) {
                                fail!(
                                    "C12", "issued_beyond_entitlement",
                                    "the list request of kidB (suspended, \
                                     then reduced to {new_res}) made the \
                                     parent issue a certificate for {got}"
                                );
                            }
                        }
                    }
                }
            }
            else {
                fail!(
                    "C12", "valid_request_refused",
                    "list by the suspended child kidB: {out:?}"
                );
            }
        }
    }

    //--- 4. Single-bit corruption of a valid message (the network flips it).
    let n_flips = 160;
    let total_bits = valid_list.len() * 8;
    let mut accepted_flips = 0u64;
    for i in 0..n_flips {
        step += 1;
        stop_if_dead!('run);
        // Spread over the message, jittered by the seed.
        let bit = (i * total_bits / n_flips + rng.usize(total_bits / n_flips))
            % total_bits;
        let mut bytes = valid_list.to_vec();
        bytes[bit / 8] ^= 1 << (bit % 8);
        let before = state_digest(&r);
        let (out, reply) = call_6492(&r, Bytes::from(bytes.clone()), &parent_id);
        if let Outcome::Panic(msg) = &out {
            fail!("C16", "panic", "bit {bit} of a list request flipped: {msg}");
        }
        if is_acted_upon(&out) {
            accepted_flips += 1;
            // Only if it still is the same request.
            let same = ProvisioningCms::decode(&bytes).ok().map(|cms| {
                let m = cms.into_message();
                m.sender().as_str() == "kidA"
                    && m.recipient().as_str() == PARENT
                    && matches!(m.payload(), Payload::List)
            }).unwrap_or(false);
            let list_reply = reply.map(|m| m.is_list_response())
                .unwrap_or(false);
            if !same || !list_reply {
                fail!(
                    "C12", "corrupted_message_accepted",
                    "a list request with bit {bit} flipped was answered \
                     with {out:?}"
                );
            }
        }
        if state_digest(&r) != before {
            fail!(
                "C12", "corrupted_message_changed_state",
                "bit {bit} of a list request flipped"
            );
        }
    }
    report.probes.insert("bit_flips".into(), n_flips as u64);
    report.probes.insert("bit_flips_accepted".into(), accepted_flips);
    cases.insert("6492.bit_flips".into());

    //--- 5. Identity replacement on the child's side.
    step += 1;
        stop_if_dead!('run);
    {
        let inst = r.world.inst(0);
        inst.enter();
        // Half of the runs replace the identity in a request that also
        // (re)states the child's resources, as `krillc children update`
        // does when given both: every field of the request must take
        // effect.
        let combined = seed % 2 == 0;
        let mut req = api::admin::UpdateChildRequest::id_cert(a2.cert.clone());
        if combined {
            req.resources = Some(res_a.clone());
            cases.insert("6492.id_update_combined".into());
        }
        let res = block_on(inst.mgr().ca_child_update(
            handle(PARENT), ChildHandle::from_str("kidA").unwrap(), req, ADMIN
        ));
        if let Err(err) = res {
            report.harness_error = Some(format!("id update: {err:?}"));
        }
    }
    for (key_name, ident, expect) in [
        ("the replaced key", &a, false), ("the new key", &a2, true)
    ] {
        step += 1;
        stop_if_dead!('run);
        let msg = provisioning::Message::list(sender("kidA"), recipient(PARENT));
        let before = state_digest(&r);
        let (out, _) = call_6492(&r, sign6492(msg, &ident.key), &parent_id);
        log.push(format!("list A with {key_name} -> {out:?}"));
        cases.insert(format!("6492.after_id_update.{expect}"));
        if is_acted_upon(&out) != expect {
            fail!(
                "C12",
                if expect { "valid_request_refused" } else { "replaced_key_accepted" },
                "after kidA's identity was replaced, a request signed with \
                 {key_name}: {out:?}"
            );
        }
        if !expect && state_digest(&r) != before {
            fail!(
                "C12", "refused_request_changed_state",
                "request signed with the replaced identity key"
            );
        }
    }

    //--- 6. Identity replacement on the server's side.
    step += 1;
        stop_if_dead!('run);
    {
        let inst = r.world.inst(0);
        inst.enter();
        let res = block_on(inst.mgr().ca_update_id(handle(PARENT), ADMIN));
        match res {
            Ok(()) => {
                match rt.ca_manager().get_ca(&handle(PARENT)).ok()
                    .and_then(|ca| IdCert::try_from(ca.id_cert()).ok())
                {
                    Some(new_id) => {
                        let old = parent_id.clone();
                        parent_id = new_id;
                        let msg = provisioning::Message::list(
                            sender("kidB"), recipient(PARENT)
                        );
                        let bytes = sign6492(msg, &b.key);
                        let (out, _) = call_6492(&r, bytes.clone(), &parent_id);
                        cases.insert("6492.server_id_update".into());
                        log.push(format!("list B after server id update -> {out:?}"));
                        if !is_acted_upon(&out) {
                            fail!(
                                "C12", "reply_not_signed_with_current_key",
                                "after the parent replaced its identity key \
                                 the reply to a valid request: {out:?}"
                            );
                        }
                        let (out_old, _) = call_6492(&r, bytes, &old);
                        if is_acted_upon(&out_old) && old.public_key() != parent_id.public_key() {
                            fail!(
                                "C12", "reply_signed_with_old_key",
                                "the reply still validates under the \
                                 replaced identity key"
                            );
                        }
                    }
                    None => {
                        report.harness_error = Some("parent id".into());
                    }
                }
            }
            Err(err) => {
                log.push(format!("server id update refused: {err:?}"));
            }
        }
    }

    //--- 7. Publication protocol.
    let obj_uri = |publ: &str, name: &str| {
        uri::Rsync::from_str(&format!("{jail}{publ}/{name}")).unwrap()
    };
    let pub_msg = |publ: &str, name: &str, data: &[u8]| {
        let mut delta = PublishDelta::empty();
        delta.add_publish(Publish::with_hash_tag(
            obj_uri(publ, name), Base64::from_content(data)
        ));
        publication::Message::delta(delta)
    };
    let pub_cases: Vec<(&str, &str, &Ident, &str, bool)> = vec![
        // (publisher endpoint, space, key, label, expected)
        ("pubA", "pubA", &a, "own space, own key", true),
        ("pubA", "pubB", &a, "B's space through A's endpoint", false),
        ("pubA", "pubA", &b, "A's endpoint with B's key", false),
        ("pubA", "pubA", &rogue, "A's endpoint with an unregistered key", false),
        ("pubB", "pubA", &b, "A's space through B's endpoint", false),
        ("pubA", "pubA", &a2, "A's endpoint with A's child-side new key", false),
    ];
    for (i, (endpoint, space, ident, what, expect)) in pub_cases.iter().enumerate() {
        step += 1;
        stop_if_dead!('run);
        let name = format!("obj{i}.cer");
        let msg = pub_msg(space, &name, format!("content {i}").as_bytes());
        let before = state_digest(&r);
        let (out, _) = call_8181(&r, endpoint, sign8181(msg, &ident.key), &repo_id);
        log.push(format!("publish: {what} -> {out:?}"));
        cases.insert(format!("8181.publish.{i}"));
        if let Outcome::Panic(msg) = &out {
            fail!("C16", "panic", "publication endpoint: {msg}");
        }
        if let Outcome::BadReply(msg) = &out {
            fail!("C12", "bad_reply", "publication: {msg}");
        }
        if is_acted_upon(&out) != *expect {
            fail!(
                "C12",
                if *expect { "valid_request_refused" } else { "foreign_publication_accepted" },
                "publication request ({what}): {out:?}"
            );
        }
        if !*expect && state_digest(&r) != before {
            fail!(
                "C12", "refused_request_changed_state",
                "publication request ({what})"
            );
        }
    }
    // List through the other endpoint must not reveal.
    step += 1;
        stop_if_dead!('run);
    {
        let (out, reply) = call_8181(
            &r, "pubB", sign8181(publication::Message::list_query(), &b.key),
            &repo_id
        );
        cases.insert("8181.list".into());
        if let Some(publication::Message::Reply(publication::Reply::List(list))) = reply {
            for el in list.elements() {
                if !el.uri().to_string().starts_with(&format!("{jail}pubB/")) {
                    fail!(
                        "C12", "list_reveals_foreign_object",
                        "pubB's list reply contains {}", el.uri()
                    );
                }
            }
        }
        else {
            fail!("C12", "valid_request_refused", "list by pubB: {out:?}");
        }
    }
    // Bit flips on a publish request.
    let valid_pub = sign8181(pub_msg("pubA", "flip.cer", b"flip me"), &a.key);
    let total_bits = valid_pub.len() * 8;
    let mut accepted_pub_flips = 0u64;
    for i in 0..n_flips {
        step += 1;
        stop_if_dead!('run);
        let bit = (i * total_bits / n_flips + rng.usize(total_bits / n_flips))
            % total_bits;
        let mut bytes = valid_pub.to_vec();
        bytes[bit / 8] ^= 1 << (bit % 8);
        let before = state_digest(&r);
        let (out, _) = call_8181(&r, "pubA", Bytes::from(bytes.clone()), &repo_id);
        if let Outcome::Panic(msg) = &out {
            fail!("C16", "panic", "bit {bit} of a publish request flipped: {msg}");
        }
        if is_acted_upon(&out) {
            accepted_pub_flips += 1;
            let same = PublicationCms::decode(&bytes).ok().map(|cms| {
                cms.into_message() == pub_msg("pubA", "flip.cer", b"flip me")
            }).unwrap_or(false);
            if !same {
                fail!(
                    "C12", "corrupted_message_accepted",
                    "a publish request with bit {bit} flipped was accepted"
                );
            }
            // Undo so that the next flip starts from the same state.
            let mut delta = PublishDelta::empty();
            delta.add_withdraw(publication::Withdraw::with_hash_tag(
                obj_uri("pubA", "flip.cer"),
                Base64::from_content(b"flip me").to_hash()
            ));
            let _ = call_8181(
                &r, "pubA",
                sign8181(publication::Message::delta(delta), &a.key), &repo_id
            );
        }
        else if state_digest(&r) != before {
            fail!(
                "C12", "corrupted_message_changed_state",
                "bit {bit} of a publish request flipped"
            );
        }
    }
    report.probes.insert("pub_bit_flips_accepted".into(), accepted_pub_flips);
    cases.insert("8181.bit_flips".into());

    //--- 7b. C16: well-formed deltas that name one URI more than once, for
    // an object that is in the RRDP snapshot, one that is only staged, and
    // one that does not exist.
    {
        use publication::{Update, Withdraw};
        let put = |r: &Runner, name: &str, data: &[u8]| {
            call_8181(r, "pubA", sign8181(pub_msg("pubA", name, data), &a.key), &repo_id)
        };
        let _ = put(&r, "dup-snap.cer", b"in the snapshot");
        let _ = r.exec_pump();
        let _ = put(&r, "dup-staged.cer", b"only staged");
        let h = |data: &[u8]| Base64::from_content(data).to_hash();
        for (target, current) in [
            ("dup-snap.cer", Some(&b"in the snapshot"[..])),
            ("dup-staged.cer", Some(&b"only staged"[..])),
            ("dup-absent.cer", None),
        ] {
            let old = h(current.unwrap_or(b"nothing"));
            let uri = obj_uri("pubA", target);
            let combos: Vec<(&str, Vec<u8>)> = vec![
                ("PP", vec![0, 0]), ("WW", vec![2, 2]), ("UU", vec![1, 1]),
                ("PW", vec![0, 2]), ("WP", vec![2, 0]), ("UW", vec![1, 2]),
                ("WU", vec![2, 1]), ("WWW", vec![2, 2, 2]),
            ];
            for (label, kinds) in combos {
                step += 1;
        stop_if_dead!('run);
                let mut delta = PublishDelta::empty();
                for kind in &kinds {
                    match kind {
                        0 => delta.add_publish(Publish::with_hash_tag(
                            uri.clone(), Base64::from_content(b"dup new")
                        )),
                        1 => delta.add_update(Update::with_hash_tag(
                            uri.clone(), Base64::from_content(b"dup upd"), old
                        )),
                        _ => delta.add_withdraw(Withdraw::with_hash_tag(
                            uri.clone(), old
                        )),
                    }
                }
                let (out, _) = call_8181(
                    &r, "pubA",
                    sign8181(publication::Message::delta(delta), &a.key),
                    &repo_id
                );
                cases.insert(format!("c16.dup_elements.{label}"));
                if let Outcome::Panic(msg) = &out {
                    fail!(
                        "C16", "panic",
                        "publication endpoint, delta {label} naming \
                         {target} more than once: {msg}"
                    );
                }
                // Background work must survive what was accepted.
                if is_acted_upon(&out) {
                    let res = r.exec_pump();
                    if r.dead.is_some() {
                        fail!(
                            "C16", "dies_after_accepted_input",
                            "after delta {label} on {target} was accepted: \
                             {res} {:?}", r.dead
                        );
                        break
                    }
                    // Bring the object back for the next combination.
                    if let Some(data) = current {
                        let _ = put(&r, target, data);
                        if target == "dup-snap.cer" {
                            let _ = r.exec_pump();
                        }
                    }
                }
            }
            if r.dead.is_some() { break }
        }
    }

    //--- 8. C16: structured garbage, validly signed and not.
    let garbage: Vec<(String, Vec<u8>)> = {
        let xml_list = provisioning::Message::list(
            sender("kidB"), recipient(PARENT)
        ).to_xml_string();
        let mut v: Vec<(String, Vec<u8>)> = vec![
            ("empty".into(), Vec::new()),
            ("not xml".into(), b"\x00\x01\x02 garbage".to_vec()),
            ("unclosed".into(), b"<message xmlns=\"http://www.apnic.net/specs/rescerts/up-down/\" version=\"1\"".to_vec()),
            ("wrong version".into(), xml_list.replace("version=\"1\"", "version=\"99999999999999999999\"").into_bytes()),
            ("wrong type".into(), xml_list.replace("type=\"list\"", "type=\"issue\"").into_bytes()),
            ("no sender".into(), xml_list.replace("sender=\"kidB\"", "").into_bytes()),
            ("huge sender".into(), xml_list.replace("kidB", &"x".repeat(70_000)).into_bytes()),
            ("odd sender".into(), xml_list.replace("kidB", "../../etc/passwd").into_bytes()),
            ("entity".into(), format!("<!DOCTYPE m [<!ENTITY a \"aaaaaaaaaa\">]>{xml_list}").into_bytes()),
            ("nested".into(), format!("{}{}", "<a>".repeat(5000), "</a>".repeat(5000)).into_bytes()),
        ];
        // Seeded byte mutations of the valid XML.
        for k in 0..12 {
            let mut bytes = xml_list.clone().into_bytes();
            for _ in 0..(1 + rng.below(4)) {
                let pos = rng.usize(bytes.len());
                match rng.below(3) {
                    0 => bytes[pos] = rng.below(256) as u8,
                    1 => { bytes.remove(pos); }
                    _ => bytes.insert(pos, rng.below(256) as u8),
                }
            }
            v.push((format!("mutated xml {k}"), bytes));
        }
        v
    };
    for (what, content) in &garbage {
        step += 1;
        stop_if_dead!('run);
        // Validly signed by a registered child: the CMS layer passes.
        let signed = rt.signer().create_ta_signed_message(
            Bytes::from(content.clone()), 1, &b.key
        ).map(|m| m.to_captured().into_bytes());
        let before = state_digest(&r);
        if let Ok(bytes) = signed {
            let (out, _) = call_6492(&r, bytes.clone(), &parent_id);
            cases.insert("c16.signed_garbage_6492".into());
            if let Outcome::Panic(msg) = &out {
                fail!(
                    "C16", "panic",
                    "provisioning endpoint, validly signed content \
                     '{what}': {msg}"
                );
            }
            let (out, _) = call_8181(&r, "pubB", bytes, &repo_id);
            cases.insert("c16.signed_garbage_8181".into());
            if let Outcome::Panic(msg) = &out {
                fail!(
                    "C16", "panic",
                    "publication endpoint, validly signed content \
                     '{what}': {msg}"
                );
            }
        }
        // Raw, unsigned.
        let (out, _) = call_6492(&r, Bytes::from(content.clone()), &parent_id);
        if let Outcome::Panic(msg) = &out {
            fail!("C16", "panic", "provisioning endpoint, raw '{what}': {msg}");
        }
        let (out, _) = call_8181(&r, "pubB", Bytes::from(content.clone()), &repo_id);
        if let Outcome::Panic(msg) = &out {
            fail!("C16", "panic", "publication endpoint, raw '{what}': {msg}");
        }
        cases.insert("c16.raw_garbage".into());
        if state_digest(&r) != before {
            fail!(
                "C16", "garbage_changed_state",
                "content '{what}' changed configuration or published content"
            );
        }
    }
    // Truncations and byte mutations of a valid CMS.
    for k in 0..40 {
        step += 1;
        stop_if_dead!('run);
        let mut bytes = valid_pub.to_vec();
        match k % 4 {
            0 => bytes.truncate(rng.usize(bytes.len())),
            1 => {
                let pos = rng.usize(bytes.len());
                bytes.insert(pos, rng.below(256) as u8);
            }
            2 => {
                let pos = rng.usize(bytes.len());
                bytes.remove(pos);
            }
            _ => {
                // Length fields are a classic: set a byte to 0xff / 0x80.
                let pos = rng.usize(std::cmp::min(bytes.len(), 64));
                bytes[pos] = *rng.pick(&[0xffu8, 0x80, 0x00, 0x84]);
            }
        }
        let before = state_digest(&r);
        let (out, _) = call_8181(&r, "pubA", Bytes::from(bytes.clone()), &repo_id);
        if let Outcome::Panic(msg) = &out {
            fail!("C16", "panic", "publication endpoint, mutated CMS {k}: {msg}");
        }
        let (out2, _) = call_6492(&r, Bytes::from(bytes), &parent_id);
        if let Outcome::Panic(msg) = &out2 {
            fail!("C16", "panic", "provisioning endpoint, mutated CMS {k}: {msg}");
        }
        if !is_acted_upon(&out) && state_digest(&r) != before {
            fail!("C16", "garbage_changed_state", "mutated CMS {k}");
        }
        cases.insert("c16.mutated_cms".into());
    }

    //--- 9. C16: API request bodies.
    crate::c16::api_bodies(&mut r, &mut rng, &mut violations, &mut cases, step);

    break 'run
    }
    for inst in r.world.insts.iter_mut() {
        inst.stop();
    }
    seams::enable(false);
    {
        let st = hooks::state();
        report.kv_mutations = st.kv_mutations;
        report.fs_mutations = st.fs_mutations;
    }
    report.stats.insert("cases".into(), cases.len() as u64);
    report.extra_sites = cases.into_iter().collect();
    report.fingerprint = sha256_hex(log.join("\n").as_bytes());
    report.results = log;
    report.state_changing_ops = 1;
    report.caught_up_checks = 1;
    report.violations = violations;
    let mut seen = BTreeSet::new();
    report.violations.retain(|v| seen.insert((v.prop.clone(), v.rule.clone())));
    report.wall_ms = t0.elapsed().as_millis() as u64;
    world::remove_run_dir(&base);
    report
}
