//! Link-level seams: virtual wall clock, virtual sleep and seeded OS entropy.
//!
//! The binary defines the libc symbols `clock_gettime`, `nanosleep`,
//! `clock_nanosleep` and `getrandom`; the static linker binds std's (and every
//! dependency's) references to these definitions.
//!
//! * `CLOCK_REALTIME` reads return the simulator's virtual time plus the
//!   calling thread's skew. All other clocks go to the kernel, so `Instant`
//!   and thread parking keep working.
//! * sleeping advances the virtual clock instead of blocking.
//! * `getrandom` returns a pure function of (run seed, per-thread stream id,
//!   per-thread counter), so HashMap iteration order, `rand::rng()` and
//!   `uuid::new_v4` are reproducible and independent of what other threads
//!   draw.

use std::cell::Cell;
use std::sync::atomic::{AtomicBool, AtomicI64, AtomicU64, Ordering};

static ENABLED: AtomicBool = AtomicBool::new(false);
static NOW_NS: AtomicI64 = AtomicI64::new(0);
static SEED: AtomicU64 = AtomicU64::new(0);
static CLOCK_READS: AtomicU64 = AtomicU64::new(0);
static ENTROPY_CALLS: AtomicU64 = AtomicU64::new(0);
static SLEEPS: AtomicU64 = AtomicU64::new(0);

thread_local! {
    static SKEW_NS: Cell<i64> = const { Cell::new(0) };
    static STREAM: Cell<u64> = const { Cell::new(u64::MAX) };
    static COUNTER: Cell<u64> = const { Cell::new(0) };
}

pub fn enable(on: bool) {
    ENABLED.store(on, Ordering::SeqCst);
}

pub fn set_now_secs(secs: i64) {
    NOW_NS.store(secs * 1_000_000_000, Ordering::SeqCst);
}

pub fn now_ns() -> i64 {
    NOW_NS.load(Ordering::SeqCst)
}

pub fn now_secs() -> i64 {
    now_ns() / 1_000_000_000
}

pub fn advance_ns(ns: i64) {
    NOW_NS.fetch_add(ns, Ordering::SeqCst);
}

pub fn advance_secs(secs: i64) {
    advance_ns(secs * 1_000_000_000)
}

pub fn set_thread_skew_secs(secs: i64) {
    SKEW_NS.with(|s| s.set(secs * 1_000_000_000));
}

pub fn set_seed(seed: u64) {
    SEED.store(seed, Ordering::SeqCst);
}

/// Assigns the calling thread its entropy stream and resets its counter.
pub fn set_thread_stream(id: u64) {
    STREAM.with(|s| s.set(id));
    COUNTER.with(|c| c.set(0));
}

pub fn stats() -> (u64, u64, u64) {
    (
        CLOCK_READS.load(Ordering::Relaxed),
        ENTROPY_CALLS.load(Ordering::Relaxed),
        SLEEPS.load(Ordering::Relaxed),
    )
}

fn mix(mut z: u64) -> u64 {
    z = z.wrapping_add(0x9E37_79B9_7F4A_7C15);
    z = (z ^ (z >> 30)).wrapping_mul(0xBF58_476D_1CE4_E5B9);
    z = (z ^ (z >> 27)).wrapping_mul(0x94D0_49BB_1331_11EB);
    z ^ (z >> 31)
}

#[unsafe(no_mangle)]
pub unsafe extern "C" fn clock_gettime(
    clk: libc::clockid_t, ts: *mut libc::timespec,
) -> libc::c_int {
    if ENABLED.load(Ordering::Relaxed)
        && (clk == libc::CLOCK_REALTIME || clk == libc::CLOCK_REALTIME_COARSE)
    {
        CLOCK_READS.fetch_add(1, Ordering::Relaxed);
        let skew = SKEW_NS.try_with(|s| s.get()).unwrap_or(0);
        let now = NOW_NS.load(Ordering::SeqCst) + skew;
        unsafe {
            (*ts).tv_sec = now.div_euclid(1_000_000_000) as libc::time_t;
            (*ts).tv_nsec = now.rem_euclid(1_000_000_000) as libc::c_long;
        }
        return 0
    }
    unsafe { libc::syscall(libc::SYS_clock_gettime, clk, ts) as libc::c_int }
}

fn virtual_sleep(req: *const libc::timespec) {
    SLEEPS.fetch_add(1, Ordering::Relaxed);
    let ns = unsafe {
        (*req).tv_sec as i64 * 1_000_000_000 + (*req).tv_nsec as i64
    };
    if ns > 0 {
        NOW_NS.fetch_add(ns, Ordering::SeqCst);
    }
}

#[unsafe(no_mangle)]
pub unsafe extern "C" fn nanosleep(
    req: *const libc::timespec, rem: *mut libc::timespec,
) -> libc::c_int {
    if ENABLED.load(Ordering::Relaxed)
        && STREAM.try_with(|s| s.get()).unwrap_or(u64::MAX) != u64::MAX
    {
        virtual_sleep(req);
        return 0
    }
    unsafe { libc::syscall(libc::SYS_nanosleep, req, rem) as libc::c_int }
}

#[unsafe(no_mangle)]
pub unsafe extern "C" fn clock_nanosleep(
    clk: libc::clockid_t, flags: libc::c_int,
    req: *const libc::timespec, rem: *mut libc::timespec,
) -> libc::c_int {
    if ENABLED.load(Ordering::Relaxed)
        && STREAM.try_with(|s| s.get()).unwrap_or(u64::MAX) != u64::MAX
    {
        if flags == 0 {
            virtual_sleep(req);
        }
        else {
            // Absolute deadline on a real clock: advance the virtual clock
            // by the remaining real interval instead of waiting for it.
            let mut now = libc::timespec { tv_sec: 0, tv_nsec: 0 };
            unsafe {
                libc::syscall(libc::SYS_clock_gettime, clk, &mut now);
            }
            let delta = unsafe {
                ((*req).tv_sec as i64 - now.tv_sec as i64) * 1_000_000_000
                    + ((*req).tv_nsec as i64 - now.tv_nsec as i64)
            };
            SLEEPS.fetch_add(1, Ordering::Relaxed);
            if delta > 0 {
                NOW_NS.fetch_add(delta, Ordering::SeqCst);
            }
        }
        return 0
    }
    let res = unsafe {
        libc::syscall(libc::SYS_clock_nanosleep, clk, flags, req, rem)
    };
    // clock_nanosleep returns the error number instead of setting errno.
    if res < 0 { unsafe { *libc::__errno_location() } } else { 0 }
}

#[unsafe(no_mangle)]
pub unsafe extern "C" fn getrandom(
    buf: *mut libc::c_void, len: libc::size_t, flags: libc::c_uint,
) -> libc::ssize_t {
    let stream = STREAM.try_with(|s| s.get()).unwrap_or(u64::MAX);
    if ENABLED.load(Ordering::Relaxed) && stream != u64::MAX {
        ENTROPY_CALLS.fetch_add(1, Ordering::Relaxed);
        let seed = SEED.load(Ordering::Relaxed);
        let out = unsafe {
            std::slice::from_raw_parts_mut(buf as *mut u8, len)
        };
        let mut i = 0;
        while i < len {
            let ctr = COUNTER.with(|c| {
                let v = c.get();
                c.set(v + 1);
                v
            });
            let word = mix(
                mix(seed ^ 0xA5A5_5A5A_0123_4567)
                    ^ mix(stream.wrapping_mul(0xD6E8_FEB8_6659_FD93))
                    ^ ctr.wrapping_mul(0x9E37_79B9_7F4A_7C15)
            ).to_le_bytes();
            let n = std::cmp::min(8, len - i);
            out[i..i + n].copy_from_slice(&word[..n]);
            i += n;
        }
        return len as libc::ssize_t
    }
    unsafe {
        libc::syscall(libc::SYS_getrandom, buf, len, flags) as libc::ssize_t
    }
}
