//! Oracles evaluated during and after histories (beyond C01, which lives in
//! `history.rs`): stepwise pumping with instant invariants, the CRL ledger
//! (C03), delegation invariants (C02), key-roll invariants (C04), timing
//! (C14), rebuild equivalence (C06).

use std::collections::{BTreeMap, BTreeSet};
use krill::server::runtime::KrillRuntime;
use krill::commons::storage::Ident;
use crate::history::Runner;
use crate::hooks;
use crate::rp::RpResult;
use crate::seams;
use crate::world::{guarded, Guarded};

#[derive(Default)]
pub struct OracleState {
    /// The trust anchor signer is off-line: the proxy/signer
    /// synchronisation task is taken off the queue whenever it shows up
    /// (what that task does when the signer is not local: nothing).
    pub signer_offline: bool,
    /// A signing session was started; the requests that waited for it are
    /// answered by the next stretch of background work.
    pub signer_backlog: bool,
    pub deleted_cas: BTreeSet<String>,
    pub tasks_run: u64,
    /// Child removals, suspensions and CA deletions so far.
    pub detach_events: u64,
    pub entitlement_events: u64,
    pub names_used: u64,
    pub c02: crate::c02::State,
    pub c03: crate::c03::State,
    pub c04: crate::c04::State,
    pub c14: crate::c14::State,
    pub c11: crate::c11::State,
    pub c19: crate::c19::State,
    /// Instance of the CA whose deletion the C19 oracle is to judge.
    pub c19_deleted_inst: Option<usize>,
    /// `CrashNext`: (instance, k) for the next pump.
    pub pending_crash: Option<(usize, u64)>,
    /// The pump restarts an instance that crashed and goes on.
    pub crash_recovery: bool,
    pub crashes_recovered: u64,
    pub c09_checks: u64,
}

/// Task names that recur for ever at short intervals; the pump does not
/// chase them into the future.
fn is_recurring(name: &str) -> bool {
    name == "all_cas_republish_if_needed"
        || name == "all_cas_renew_objects_if_needed"
        || name == "update_stored_snapshots"
        || name == "renew_testbed_ta"
        || name.starts_with("suspend_children_if_needed_")
}

/// Pumps background work one task at a time until caught up.
pub fn pump_stepwise(r: &mut Runner) -> Guarded<bool> {
    let horizon_ms: i128 = 600_000;
    let mut last_digest = String::new();
    let mut stable = 0;
    let mut rounds = 0;
    let mut tasks = 0u64;
    // Names of the tasks that ran since the observable state last changed.
    let mut ran_since_change: BTreeSet<String> = BTreeSet::new();
    loop {
        // Run every due task, one at a time.
        loop {
            let mut any = false;
            for idx in 0..r.world.insts.len() {
                if !r.world.insts[idx].is_up() {
                    continue
                }
                if r.oracles.c19 {
                    crate::c19::before_step(r);
                }
                if r.ext.signer_offline && idx == 0 {
                    drop_signer_sync_tasks(r);
                }
                let step = guarded(|| {
                    r.world.insts[idx].run_scheduler_step()
                });
                // An instance that died while it served a request of the
                // one whose task just ran is started again.
                if r.ext.crash_recovery {
                    for crashed in crate::net::take_crashed() {
                        if !restart_after_crash(r, crashed, "serving") {
                            return Guarded::Ok(true)
                        }
                    }
                }
                let claimed = match step {
                    Guarded::Ok(claimed) => claimed,
                    Guarded::Crash if r.ext.crash_recovery => {
                        // The process died in the middle of a task.
                        if !restart_after_crash(r, idx, "task") {
                            return Guarded::Ok(true)
                        }
                        any = true;
                        continue
                    }
                    Guarded::Fatal(msg) if r.ext.crash_recovery
                        && hooks::state().fault.fired_at.is_some() =>
                    {
                        let _ = msg;
                        if !restart_after_crash(r, idx, "task") {
                            return Guarded::Ok(true)
                        }
                        any = true;
                        continue
                    }
                    Guarded::Crash => return Guarded::Crash,
                    Guarded::Fatal(msg) => return Guarded::Fatal(msg),
                    Guarded::Panic(msg) => return Guarded::Panic(msg),
                    Guarded::Abort => return Guarded::Abort,
                };
                if claimed {
                    any = true;
                    tasks += 1;
                    let name = hooks::state().last_task.clone();
                    ran_since_change.insert(
                        name.split_once('-').map(|x| x.1.to_string())
                            .unwrap_or(name)
                    );
                    r.ext.tasks_run += 1;
                    after_task(r, idx);
                    if r.dead.is_some() {
                        return Guarded::Ok(true)
                    }
                }
            }
            if !any {
                break
            }
            if tasks > 4000 {
                return Guarded::Ok(false)
            }
        }
        r.world.pump_rounds += 1;
        rounds += 1;
        // Anything due soon?
        let now_ms = seams::now_ns() as i128 / 1_000_000;
        let mut next: Option<i128> = None;
        // Earliest due time among the tasks that have not run yet since
        // the observable state last changed.
        let mut next_fresh: Option<i128> = None;
        let mut waiting: BTreeSet<String> = BTreeSet::new();
        for inst in &r.world.insts {
            if !inst.is_up() {
                continue
            }
            let skew_ms = inst.skew_secs as i128 * 1000;
            for (ts, name) in inst.pending_tasks() {
                let due = ts as i128 - skew_ms;
                if due > now_ms && is_recurring(&name) {
                    continue
                }
                if due <= now_ms + horizon_ms {
                    waiting.insert(name.clone());
                    next = Some(match next {
                        Some(n) => std::cmp::min(n, due),
                        None => due
                    });
                    if !ran_since_change.contains(&name) {
                        next_fresh = Some(match next_fresh {
                            Some(n) => std::cmp::min(n, due),
                            None => due
                        });
                    }
                }
            }
        }
        let Some(due) = next else { return Guarded::Ok(true) };
        let digest = r.world.digest();
        if std::env::var_os("VERIF_DEBUG_PUMP").is_some() {
            eprintln!(
                "pump round {rounds} now {now_ms} next due {due} stable \
                 {stable} same {}", digest == last_digest
            );
        }
        if digest == last_digest {
            stable += 1;
        }
        else {
            stable = 0;
            last_digest = digest;
            ran_since_change.clear();
        }
        // Only tasks that already ran without effect are left: retries.
        if stable >= 2 && waiting.iter().all(|n| ran_since_change.contains(n)) {
            // Only unproductive retries are left.
            r.stat("pump.retry_loop_cut");
            return Guarded::Ok(true)
        }
        if rounds >= 40 {
            return Guarded::Ok(false)
        }
        // A task that is put back every second because it waits for
        // something another (later) task has to do first would otherwise
        // keep the clock from ever reaching that other task: once nothing
        // has changed for a few rounds, move on to the earliest task that
        // has not had its turn.
        let due = match next_fresh {
            Some(fresh) if stable >= 3 && fresh > due => {
                r.stat("pump.skipped_to_fresh_task");
                fresh
            }
            _ => due
        };
        if due > now_ms {
            let secs = ((due - now_ms + 999) / 1000) as i64;
            r.world.advance(secs);
        }
    }
}

/// Drops what is left of a crashed instance and starts it again from its
/// directory. Returns false if it does not come up (the run is over).
fn restart_after_crash(r: &mut Runner, idx: usize, during: &str) -> bool {
    let at = hooks::state().fault.fired_at.clone().unwrap_or_default();
    hooks::log(format!("crash of instance {idx} ({during}) at {at}"));
    r.stat(&format!("crash_next.{during}"));
    hooks::state().fire("crash_in_background");
    r.world.insts[idx].stop();
    let started = hooks::with_faults_suspended(|| {
        guarded(|| r.world.insts[idx].start())
    });
    match started {
        Guarded::Ok(Ok(())) => {
            r.ext.crashes_recovered += 1;
            after_restart(r, idx);
            true
        }
        other => {
            r.violation(
                "C08", "restart_failed",
                format!(
                    "instance {idx} does not start after a crash at {at}: \
                     {other:?}"
                )
            );
            r.dead = Some("restart failed".into());
            false
        }
    }
}

/// Instant invariants, evaluated after every background task.
pub fn after_task(r: &mut Runner, _inst: usize) {
    if r.oracles.c02 {
        crate::c02::instant(r);
    }
    if r.oracles.c04 {
        crate::c04::instant(r);
    }
    if r.oracles.c14 {
        crate::c14::after_task(r);
    }
    if r.oracles.c03 {
        crate::c03::after_task(r);
    }
    if r.oracles.c06 {
        // Right after snapshots were written is when a snapshot that does
        // not carry the whole state shows.
        let task = hooks::state().last_task.clone();
        if task.contains("update_stored_snapshots") {
            crate::c06::check(r);
        }
    }
    if r.oracles.c11 {
        let task = hooks::state().last_task.clone();
        crate::c11::observe(r, &format!("after task {task}"));
    }
    if r.oracles.c19 {
        let task = hooks::state().last_task.clone();
        // Revocation requests are exchanges with the parent too; what the
        // status shows afterwards is theirs.
        if task.contains("resource_class_removed_")
            || task.contains("unexpected_key_")
        {
            r.ext.c19.parent_outcome.clear();
        }
        crate::c19::observe(r, &format!("after task {task}"));
        crate::c19::entitlements_after_task(r, &task, _inst);
    }
}

/// While the signer is off-line: removes the pending proxy/signer
/// synchronisation task of instance 0.
pub fn drop_signer_sync_tasks(r: &mut Runner) {
    let inst = r.world.inst(0);
    let pending: Vec<String> = inst.pending_tasks().into_iter()
        .filter(|(_, name)| name == "sync_ta_proxy_signer")
        .map(|(ts, name)| format!("{ts}-{name}")).collect();
    if pending.is_empty() {
        return
    }
    hooks::with_faults_suspended(|| {
        let Ok(store) = inst.rt().storage().open(
            krill::constants::TASK_QUEUE_NS
        ) else { return };
        let scope = Ident::make("pending");
        for key in &pending {
            if let Ok(key) = Ident::boxed_from_string(key.clone()) {
                let _ = store.execute(Some(scope), |kv| {
                    kv.delete(Some(scope), &key)
                });
            }
        }
    });
    r.stat("signer_sync_held_back");
}

/// Instant invariants, evaluated after every API operation.
pub fn after_op(r: &mut Runner) {
    if r.dead.is_some() {
        return
    }
    if r.oracles.c02 {
        crate::c02::instant(r);
    }
    if r.oracles.c04 {
        crate::c04::instant(r);
    }
    if r.oracles.c14 {
        crate::c14::instant(r);
    }
    if r.oracles.c03 {
        crate::c03::instant(r);
    }
    if r.oracles.c11 {
        crate::c11::observe(r, "after the operation");
    }
    if r.oracles.c19 {
        crate::c19::observe(r, "after the operation");
    }
}

pub fn at_caught_up(r: &mut Runner, repo_inst: usize, rpres: &RpResult) {
    if r.oracles.c03 {
        crate::c03::at_caught_up(r, repo_inst, rpres);
    }
    if r.oracles.c02 {
        crate::c02::at_caught_up(r, repo_inst, rpres);
    }
    if r.oracles.c04 {
        crate::c04::at_caught_up(r, repo_inst, rpres);
    }
    if r.oracles.c14 {
        crate::c14::at_caught_up(r, repo_inst, rpres);
    }
    if r.oracles.c09 && r.world.insts.len() == 1 {
        // Background work has caught up and no fault was injected: every
        // follow-up of every committed change must have been executed
        // (object sets at the repository, served files written,
        // revocations carried out). Unsent requests are not judged here
        // (a refused or orphaned CA keeps them legitimately).
        let everyone: BTreeSet<String> = r.model.cas.values()
            .map(|c| c.name.clone()).collect();
        let found = crate::c09::followups_done(
            r, &everyone, &std::collections::BTreeMap::new()
        );
        r.ext.c09_checks += 1;
        if let Some((rule, detail)) = found.into_iter().next() {
            r.violation("C09", &rule, format!("at quiescence: {detail}"));
        }
    }
}

pub fn after_restart(_r: &mut Runner, _inst: usize) {
}

pub fn note_parent_removed(
    _r: &mut Runner, _inst: usize, _name: &str, _parent: &str,
) {
}

pub fn note_ca_deleted(r: &mut Runner, _inst: usize, name: &str) {
    r.ext.deleted_cas.insert(name.to_string());
    r.ext.detach_events += 1;
}

pub fn note_entitlement_change(r: &mut Runner) {
    r.ext.c02.last_entitlement_change = r.step;
}

/// A digest of the stored object set of a CA (the `ca_objects` entry).
pub fn ca_objects_digest(rt: &KrillRuntime, ca: &str) -> String {
    match ca_objects_json(rt, ca) {
        Some(value) => crate::util::sha256_hex(value.to_string().as_bytes()),
        None => "none".to_string(),
    }
}

pub fn ca_objects_json(rt: &KrillRuntime, ca: &str) -> Option<serde_json::Value> {
    hooks::with_faults_suspended(|| {
        let store = rt.storage().open(krill::constants::CA_OBJECTS_NS).ok()?;
        let key = Ident::boxed_from_string(format!("{ca}.json")).ok()?;
        store.get::<serde_json::Value>(None, &key).ok().flatten()
    })
}

pub type Counter = BTreeMap<String, u64>;
