//! The simulated network between instances.
//!
//! Krill's only outgoing transport for the provisioning (RFC 6492) and
//! publication (RFC 8181) protocols is `post_protocol_cms_binary`; with the
//! `verif-hooks` feature it hands the request to the harness instead of
//! `reqwest`. The harness routes it by host name to the instance that owns
//! it and calls that instance's `rfc6492` / `rfc8181` entry point inline,
//! on the calling thread, under the target instance's clock skew.
//!
//! Faults (all drawn from one seeded stream, in call order):
//! * `drop_request`  - the request is lost, the client sees a timeout;
//! * `drop_response` - the server processes the request, the reply is lost;
//! * `duplicate`     - the request is delivered twice, the client gets the
//!                     second reply;
//! * `late_copy`     - a copy of an earlier request to the same URI is
//!                     delivered first (a delayed duplicate), its reply is
//!                     thrown away;
//! * `down`          - the target instance is not running: connection
//!                     refused;
//! * `partitioned`   - the link between the instances is cut while both
//!                     keep running: nothing gets across in either
//!                     direction until it is restored.

use std::collections::BTreeMap;
use std::str::FromStr;
use std::sync::{Arc, Mutex};
use bytes::Bytes;
use rpki::ca::idexchange::PublisherHandle;
use krill::server::manager::KrillManager;
use crate::hooks;
use crate::rng::Rng;
use crate::seams;
use crate::sim::handle;
use crate::world::ADMIN;

#[derive(Clone, Debug)]
pub struct NetCfg {
    pub drop_request_permille: u64,
    pub drop_response_permille: u64,
    pub duplicate_permille: u64,
    pub late_copy_permille: u64,
}

impl NetCfg {
    pub fn reliable() -> Self {
        NetCfg {
            drop_request_permille: 0, drop_response_permille: 0,
            duplicate_permille: 0, late_copy_permille: 0,
        }
    }
}

struct Host {
    idx: usize,
    skew_secs: i64,
    started_at: i64,
    mgr: Arc<KrillManager>,
}

struct Net {
    hosts: BTreeMap<String, Host>,
    rng: Rng,
    cfg: NetCfg,
    /// Earlier requests per URI (bounded).
    seen: BTreeMap<String, Vec<Vec<u8>>>,
    /// Faults are suspended while the harness sets things up.
    quiet: bool,
    /// The link between the instances is cut: both keep running, nothing
    /// gets from one to the other.
    cut: bool,
}

static NET: Mutex<Option<Net>> = Mutex::new(None);

/// Instances that crashed (injected) while they served a request.
static CRASHED: Mutex<Vec<usize>> = Mutex::new(Vec::new());

pub fn take_crashed() -> Vec<usize> {
    std::mem::take(&mut *CRASHED.lock().unwrap_or_else(|e| e.into_inner()))
}

fn lock() -> std::sync::MutexGuard<'static, Option<Net>> {
    NET.lock().unwrap_or_else(|e| e.into_inner())
}

/// Creates the network for a run and installs the transport handler.
pub fn install(rng: Rng, cfg: NetCfg) {
    take_crashed();
    *lock() = Some(Net {
        hosts: BTreeMap::new(), rng, cfg, seen: BTreeMap::new(), quiet: false,
        cut: false,
    });
    hooks::state().net = Some(Arc::new(|uri, body, _content_type| {
        Some(deliver(uri, body))
    }));
}

pub fn uninstall() {
    hooks::state().net = None;
    *lock() = None;
}

/// Number of message faults injected so far in this run.
pub fn faults_fired() -> u64 {
    let st = hooks::state();
    ["net.drop_request", "net.drop_response", "net.duplicate",
     "net.late_copy", "net.down", "net.partitioned"].iter()
        .map(|k| st.fired.get(*k).copied().unwrap_or(0)).sum()
}

/// Suspends or resumes the faults; returns the previous setting.
pub fn set_quiet(quiet: bool) -> bool {
    match lock().as_mut() {
        Some(net) => std::mem::replace(&mut net.quiet, quiet),
        None => false,
    }
}

/// Cuts or restores the link between the instances.
pub fn set_cut(cut: bool) {
    if let Some(net) = lock().as_mut() {
        net.cut = cut;
    }
}

pub fn is_cut() -> bool {
    lock().as_ref().map(|net| net.cut).unwrap_or(false)
}

pub fn set_cfg(cfg: NetCfg) {
    if let Some(net) = lock().as_mut() {
        net.cfg = cfg;
    }
}

pub fn register(
    host: &str, idx: usize, skew_secs: i64, started_at: i64,
    mgr: Arc<KrillManager>,
) {
    if let Some(net) = lock().as_mut() {
        net.hosts.insert(
            host.to_string(), Host { idx, skew_secs, started_at, mgr }
        );
    }
}

pub fn unregister(host: &str) {
    if let Some(net) = lock().as_mut() {
        net.hosts.remove(host);
    }
}

enum Plan {
    DropRequest,
    Deliver { late_copy: Option<Vec<u8>>, twice: bool, drop_response: bool },
}

fn deliver(uri: &str, body: &[u8]) -> Result<Bytes, String> {
    // "https://<host>/<proto>/<handle>"
    let rest = uri.strip_prefix("https://")
        .ok_or_else(|| format!("unsupported URI {uri}"))?;
    let (host, path) = rest.split_once('/')
        .ok_or_else(|| format!("unsupported URI {uri}"))?;
    let (proto, name) = path.split_once('/')
        .ok_or_else(|| format!("unsupported URI {uri}"))?;
    let name = name.trim_end_matches('/');

    // Decide under the lock, deliver outside of it (the target may call
    // out again).
    let (target, plan) = {
        let mut guard = lock();
        let Some(net) = guard.as_mut() else {
            return Err("no network".into())
        };
        let target = net.hosts.get(host).map(|h| {
            (h.idx, h.skew_secs, h.started_at, h.mgr.clone())
        });
        if net.cut {
            if let Some((idx, ..)) = target {
                if idx != hooks::current_instance() {
                    drop(guard);
                    hooks::state().fire("net.partitioned");
                    return Err(format!(
                        "timeout talking to {host} (no route)"
                    ))
                }
            }
        }
        let plan = if net.quiet {
            Plan::Deliver { late_copy: None, twice: false, drop_response: false }
        }
        else {
            let cfg = net.cfg.clone();
            if net.rng.below(1000) < cfg.drop_request_permille {
                Plan::DropRequest
            }
            else {
                let late_copy = if net.rng.below(1000) < cfg.late_copy_permille {
                    net.seen.get(uri).and_then(|list| {
                        if list.is_empty() { None }
                        else {
                            Some(list[net.rng.usize(list.len())].clone())
                        }
                    })
                } else { None };
                let twice = net.rng.below(1000) < cfg.duplicate_permille;
                let drop_response
                    = net.rng.below(1000) < cfg.drop_response_permille;
                Plan::Deliver { late_copy, twice, drop_response }
            }
        };
        let list = net.seen.entry(uri.to_string()).or_default();
        list.push(body.to_vec());
        if list.len() > 6 {
            list.remove(0);
        }
        (target, plan)
    };
    let Some((idx, skew, started_at, mgr)) = target else {
        hooks::state().fire("net.down");
        return Err(format!("connection refused by {host}"))
    };
    let call = |bytes: &[u8]| -> Result<Bytes, String> {
        // An instance that died while serving an earlier copy of this
        // message is not there for a later one.
        if CRASHED.lock().unwrap_or_else(|e| e.into_inner()).contains(&idx) {
            hooks::state().fire("net.down");
            return Err(format!("connection refused by {host}"))
        }
        // Act as the target instance for the duration of the call.
        let caller = hooks::current_instance();
        let caller_started = hooks::state().sched_started;
        hooks::set_current_instance(idx);
        seams::set_thread_skew_secs(skew);
        hooks::state().sched_started = Some(started_at);
        let rt = mgr.verif_runtime();
        let res = std::panic::catch_unwind(std::panic::AssertUnwindSafe(|| match proto {
            "rfc6492" => rt.ca_manager().rfc6492(
                &handle(name), Bytes::copy_from_slice(bytes), None, &ADMIN, rt
            ).map_err(|e| format!("HTTP error from {host}: {e}")),
            "rfc8181" => match PublisherHandle::from_str(name) {
                Ok(publisher) => rt.repo_manager().rfc8181(
                    publisher, Bytes::copy_from_slice(bytes), rt
                ).map_err(|e| format!("HTTP error from {host}: {e}")),
                Err(_) => Err(format!("HTTP 404 from {host}")),
            },
            _ => Err(format!("HTTP 404 from {host}")),
        }));
        let res = match res {
            Ok(res) => res,
            Err(payload) => {
                // An injected crash of the serving instance: the client
                // sees the connection break; the harness starts the
                // instance again after the client's task.
                let injected = payload.is::<hooks::CrashPayload>()
                    || (payload.is::<hooks::FatalPayload>()
                        && hooks::state().fault.fired_at.is_some());
                if injected && caller != idx {
                    CRASHED.lock().unwrap_or_else(|e| e.into_inner())
                        .push(idx);
                    unregister(host);
                    hooks::state().fire("net.server_crashed");
                    Err(format!("connection to {host} broke"))
                }
                else {
                    hooks::set_current_instance(caller);
                    restore_caller_skew(caller);
                    hooks::state().sched_started = caller_started;
                    std::panic::resume_unwind(payload)
                }
            }
        };
        hooks::set_current_instance(caller);
        restore_caller_skew(caller);
        hooks::state().sched_started = caller_started;
        res
    };
    match plan {
        Plan::DropRequest => {
            hooks::state().fire("net.drop_request");
            Err(format!("timeout talking to {host} (request lost)"))
        }
        Plan::Deliver { late_copy, twice, drop_response } => {
            if let Some(old) = late_copy {
                hooks::state().fire("net.late_copy");
                if std::env::var("VERIF_KRILL_LOG").is_ok() { eprintln!("== net: late copy to {uri} ({} bytes)", old.len()); }
                let _ = call(&old);
            }
            let mut res = call(body);
            if twice {
                hooks::state().fire("net.duplicate");
                if std::env::var("VERIF_KRILL_LOG").is_ok() { eprintln!("== net: duplicate to {uri}"); }
                res = call(body);
            }
            hooks::state().fire("net.delivered");
            if drop_response {
                hooks::state().fire("net.drop_response");
                return Err(format!("timeout talking to {host} (reply lost)"))
            }
            res
        }
    }
}

fn restore_caller_skew(caller: usize) {
    let skew = lock().as_ref().and_then(|net| {
        net.hosts.values().find(|h| h.idx == caller).map(|h| h.skew_secs)
    }).unwrap_or(0);
    seams::set_thread_skew_secs(skew);
}
