//! C07 / C18: concurrent requests, readers and the task scheduler on real
//! threads whose interleaving the simulator decides.
//!
//! One run: a seeded sequential prefix builds a small delegation tree; then
//! 2-4 simulated threads issue API commands (and reads) against the same
//! runtime, optionally next to a scheduler stand-in thread that runs the
//! real background tasks. The cooperative scheduler (`sched`) releases one
//! thread at a time at Krill's storage and lock switch points; every choice
//! comes from the seeded scheduler stream and is recorded, so a run replays
//! exactly from its decision list.
//!
//! Oracles: completion without deadlock, panic or exit; per entity
//! consecutive versions and a complete audit log; readers see monotone
//! versions and one state per version; and a *serial witness*: the same
//! prefix is built again and the same commands are issued one at a time in
//! the order in which they committed - results, audit records and the
//! observable state after quiescence must be the same.

use std::collections::{BTreeMap, BTreeSet};
use std::str::FromStr;
use std::sync::atomic::{AtomicUsize, Ordering};
use std::sync::{Arc, Mutex};
use rpki::ca::idexchange::ChildHandle;
use krill::api;
use krill::server::manager::KrillManager;
use krill::server::runtime::{KrillRuntime, SlowKrillRuntime};
use crate::history::{Oracles, Runner, Violation};
use crate::hooks;
use crate::ops::{GenCfg, Op};
use crate::rng::Rng;
use crate::runs::{RunReport, START_SECS};
use crate::sched::{self, Policy, RunConfig, ThreadOutcome, ThreadSpec};
use crate::seams;
use crate::sim::{err_string, handle, World};
use crate::util::block_on;
use crate::world::{self, guarded, Guarded, ADMIN};

#[derive(Clone)]
pub struct ConcProfile {
    pub name: &'static str,
    /// Run the real scheduler loop on a thread of its own.
    pub with_scheduler: bool,
    pub readers: bool,
    pub min_threads: usize,
    pub max_threads: usize,
    pub max_ops_per_thread: usize,
}

pub fn profile(name: &str) -> Option<ConcProfile> {
    Some(match name {
        "c07" => ConcProfile {
            name: "c07", with_scheduler: false, readers: true,
            min_threads: 2, max_threads: 3, max_ops_per_thread: 3,
        },
        "c18" => ConcProfile {
            name: "c18", with_scheduler: true, readers: false,
            min_threads: 2, max_threads: 4, max_ops_per_thread: 2,
        },
        _ => return None
    })
}

const RAW_PUBLISHER: &str = "rawpub";

/// The k-th request of the raw publisher: one new object.
fn raw_publish(rt: &KrillRuntime, jail: &str, k: usize) -> String {
    use rpki::ca::publication::{Base64, Publish, PublishDelta, Query};
    let uri = rpki::uri::Rsync::from_str(
        &format!("{jail}{RAW_PUBLISHER}/obj{k}.cer")
    ).unwrap();
    let mut delta = PublishDelta::empty();
    delta.add_publish(Publish::with_hash_tag(
        uri, Base64::from_content(format!("raw object {k}").as_bytes())
    ));
    let handle = rpki::ca::idexchange::PublisherHandle::from_str(RAW_PUBLISHER)
        .unwrap();
    match rt.repo_manager().rfc8181_message(&handle, Query::Delta(delta), rt) {
        Ok(_) => "ok".to_string(),
        Err(err) => format!("err:{err}"),
    }
}

fn label(res: &Result<(), String>) -> String {
    match res {
        Ok(()) => "ok".to_string(),
        Err(e) => format!("err:{}", e.split(':').next().unwrap_or("")),
    }
}

/// Whether the operation is one API call (usable on a simulated thread).
fn single_call(op: &Op) -> bool {
    matches!(
        op,
        Op::Roa { .. } | Op::Aspa { .. } | Op::ChildResources { .. }
        | Op::ChildSuspend { .. } | Op::KeyRollInit { .. }
        | Op::KeyRollActivate { .. } | Op::RefreshAll { .. }
        | Op::RepoSyncAll { .. } | Op::RepublishAll { .. }
    )
}

/// The CA whose command log the operation writes to, if it is one command.
fn target_ca(op: &Op) -> Option<String> {
    match op {
        Op::Roa { ca, .. } | Op::Aspa { ca, .. }
        | Op::KeyRollInit { ca, .. } | Op::KeyRollActivate { ca, .. }
        => Some(ca.clone()),
        Op::ChildResources { parent, .. } | Op::ChildSuspend { parent, .. }
        => Some(parent.clone()),
        _ => None
    }
}

/// Issues the API call of an operation; no model, no checks.
pub fn api_call(mgr: &KrillManager, op: &Op) -> String {
    let res: Result<(), String> = match op {
        Op::Roa { ca, add, remove, .. } => {
            let updates = api::roa::RoaConfigurationUpdates {
                added: add.iter().filter_map(|s| {
                    api::roa::RoaConfiguration::from_str(&s.config_text()).ok()
                }).collect(),
                removed: remove.iter().filter_map(|s| {
                    api::roa::RoaPayload::from_str(&s.payload_text()).ok()
                }).collect(),
            };
            block_on(mgr.ca_routes_update(handle(ca), updates, ADMIN))
                .map_err(err_string)
        }
        Op::Aspa { ca, add, remove, .. } => {
            let updates = api::aspa::AspaDefinitionUpdates {
                add_or_replace: add.iter().map(|(customer, providers)| {
                    api::aspa::AspaDefinition {
                        customer: (*customer).into(),
                        providers: providers.iter().map(|p| (*p).into())
                            .collect(),
                    }
                }).collect(),
                remove: remove.iter().map(|c| (*c).into()).collect(),
            };
            block_on(mgr.ca_aspas_definitions_update(
                handle(ca), updates, ADMIN
            )).map_err(err_string)
        }
        Op::ChildResources { parent, child, res, .. } => {
            block_on(mgr.ca_child_update(
                handle(parent), ChildHandle::from_str(child).unwrap(),
                api::admin::UpdateChildRequest::resources(res.to_set()), ADMIN
            )).map_err(err_string)
        }
        Op::ChildSuspend { parent, child, suspend, .. } => {
            let req = if *suspend {
                api::admin::UpdateChildRequest::suspend()
            }
            else {
                api::admin::UpdateChildRequest::unsuspend()
            };
            block_on(mgr.ca_child_update(
                handle(parent), ChildHandle::from_str(child).unwrap(),
                req, ADMIN
            )).map_err(err_string)
        }
        Op::KeyRollInit { ca, .. } => {
            block_on(mgr.ca_keyroll_init(handle(ca), ADMIN))
                .map_err(err_string)
        }
        Op::KeyRollActivate { ca, .. } => {
            block_on(mgr.ca_keyroll_activate(handle(ca), ADMIN))
                .map_err(err_string)
        }
        Op::RefreshAll { .. } => {
            block_on(mgr.cas_refresh_all()).map_err(err_string)
        }
        Op::RepoSyncAll { .. } => {
            block_on(mgr.cas_repo_sync_all()).map_err(err_string)
        }
        Op::RepublishAll { force, .. } => {
            block_on(mgr.republish_all(*force)).map_err(err_string)
        }
        Op::DeleteCa { name, .. } => {
            block_on(mgr.ca_delete(handle(name), ADMIN)).map_err(err_string)
        }
        _ => Err("harness: not a single call".to_string()),
    };
    label(&res)
}

//------------ Building the prefix -------------------------------------------

struct Built {
    runner: Runner,
    thread_ops: Vec<Vec<Op>>,
    digest: String,
    config: String,
}

fn build(seed: u64, profile: &ConcProfile, base: &std::path::Path) -> Result<Built, String> {
    hooks::state().reset_for_run(base, true);
    seams::set_seed(seed);
    seams::set_thread_stream(0);
    seams::set_thread_skew_secs(0);
    seams::enable(true);
    let root = Rng::new(seed);
    let mut cfg_rng = root.fork("config");
    let mut cfg = world::draw_inst_cfg("a", &mut cfg_rng, false);
    cfg.disk = cfg_rng.chance(1, 2);
    let n_prefix = 4 + cfg_rng.usize(7);
    let mut w = World::new(base, START_SECS);
    w.add_instance(cfg.clone());
    let gen_cfg = GenCfg {
        allow_restart: false,
        allow_delete: false,
        max_cas: 4,
        w_clock: 2,
        max_advance: 600,
        ..GenCfg::default()
    };
    let mut runner = Runner::new(
        w, root.fork("ops"), gen_cfg, Oracles::default()
    );
    match guarded(|| runner.world.insts[0].start()) {
        Guarded::Ok(Ok(())) => { }
        other => return Err(format!("start: {other:?}")),
    }
    runner.register_testbed(0);
    runner.exec_pump();
    for _ in 0..n_prefix {
        if runner.dead.is_some() { break }
        let op = runner.next_op();
        runner.exec(&op);
        if runner.dead.is_none() && runner.rng.below(100) < 60 {
            let _ = runner.views();
            runner.exec(&Op::Pump);
        }
    }
    let _ = runner.views();
    runner.exec(&Op::Pump);
    if runner.dead.is_some() {
        return Err(format!("prefix died: {:?}", runner.dead))
    }
    // A remote publisher without a CA behind it: its requests arrive on
    // an HTTP worker thread, concurrently with the scheduler.
    if profile.with_scheduler {
        let inst = runner.world.inst(0);
        inst.enter();
        let rt = inst.rt();
        let cert = rt.signer().create_self_signed_id_cert()
            .map_err(|e| e.to_string())?;
        let req = rpki::ca::idexchange::PublisherRequest::new(
            rpki::ca::publication::Base64::from_content(&cert.to_bytes()),
            rpki::ca::idexchange::PublisherHandle::from_str(RAW_PUBLISHER)
                .unwrap(),
            None
        );
        rt.repo_manager().create_publisher(req, &ADMIN)
            .map_err(|e| e.to_string())?;
    }
    // The concurrent operations, generated against the reached state.
    let mut op_rng = root.fork("conc");
    let n_threads = profile.min_threads
        + op_rng.usize(profile.max_threads - profile.min_threads + 1);
    let mut thread_ops = Vec::new();
    for _ in 0..n_threads {
        let n = 1 + op_rng.usize(profile.max_ops_per_thread);
        let mut ops = Vec::new();
        let mut tries = 0;
        while ops.len() < n && tries < 60 {
            tries += 1;
            let op = runner.next_op();
            if single_call(&op) {
                ops.push(op);
            }
        }
        thread_ops.push(ops);
    }
    // In a third of the runs with the scheduler one request deletes a CA
    // (a leaf created for the purpose, which no other generated request
    // refers to): the deletion revokes at the parent, deactivates the CA
    // and drops it while the scheduler thread works on the tasks these
    // steps queue for the very same CA.
    if profile.with_scheduler && op_rng.chance(1, 3) {
        let victim = "victim";
        runner.exec(&Op::CreateCa {
            inst: 0, name: victim.into(), parent_inst: 0,
            parent: "testbed".into(),
            res: crate::model::Res { v4: 0x8000, v6: 0x80, asn: 0x80 },
        });
        let _ = runner.views();
        runner.exec(&Op::Pump);
        if runner.dead.is_some() {
            return Err(format!("victim CA: {:?}", runner.dead))
        }
        let t = op_rng.usize(thread_ops.len());
        let pos = op_rng.usize(thread_ops[t].len() + 1);
        thread_ops[t].insert(pos, Op::DeleteCa {
            inst: 0, name: victim.into(),
        });
    }
    // Not the object bytes: certificate serial numbers come from OpenSSL's
    // generator, which cannot be re-seeded within a process.
    if profile.with_scheduler {
        // Maintenance that rewrites every CA's object set while requests
        // change it: a forced re-publication from an API thread, and/or the
        // recurring re-publication task falling due on the scheduler.
        if op_rng.chance(1, 2) {
            let t = op_rng.usize(thread_ops.len());
            let pos = op_rng.usize(thread_ops[t].len() + 1);
            thread_ops[t].insert(pos, Op::RepublishAll {
                inst: 0, force: op_rng.chance(1, 2),
            });
        }
        if op_rng.chance(1, 2) {
            runner.world.advance(600);
        }
    }
    let digest = crate::util::sha256_hex(format!(
        "{:?}{:?}{}", versions(&runner), runner.results,
        crate::cuts::norm_state(&runner)
    ).as_bytes());
    if std::env::var_os("VERIF_DEBUG").is_some() {
        eprintln!("build {}: versions {:?}", base.display(), versions(&runner));
        for (op, res) in runner.ops_done.iter().zip(&runner.results) {
            eprintln!("   {} -> {res}", serde_json::to_string(op).unwrap());
        }
        if let Ok((objects, _)) = runner.world.objects(0) {
            for (uri, data) in objects.iter() {
                eprintln!("   obj {uri} {}", &crate::util::sha256_hex(data)[..12]);
            }
        }
    }
    Ok(Built {
        runner, thread_ops, digest, config: format!("{cfg:?}"),
    })
}

/// New audit records per CA since `before`: (version, actor, summary, ok).
fn audit_records(
    r: &Runner, before: &BTreeMap<String, u64>,
) -> BTreeMap<String, Vec<(u64, String, String, bool)>> {
    hooks::with_faults_suspended(|| {
        let rt = r.world.inst(0).rt();
        let mut out = BTreeMap::new();
        for h in rt.ca_manager().ca_handles().unwrap_or_default() {
            let name = h.to_string();
            let from = before.get(&name).copied().unwrap_or(0);
            let crit = api::history::CommandHistoryCriteria::default();
            let Ok(history) = rt.ca_manager().ca_history(&h, crit) else {
                continue
            };
            let mut list = Vec::new();
            for rec in &history.commands {
                if rec.version >= from {
                    list.push((
                        rec.version, rec.actor.clone(),
                        rec.summary.msg.clone(),
                        matches!(
                            rec.effect,
                            api::history::CommandHistoryResult::Init()
                            | api::history::CommandHistoryResult::Ok()
                        ),
                    ));
                }
            }
            list.sort();
            out.insert(name, list);
        }
        out
    })
}

fn versions(r: &Runner) -> BTreeMap<String, u64> {
    hooks::with_faults_suspended(|| {
        use krill::commons::eventsourcing::Aggregate;
        let rt = r.world.inst(0).rt();
        rt.ca_manager().ca_handles().unwrap_or_default().iter()
            .filter_map(|h| {
                rt.ca_manager().get_ca(h).ok()
                    .map(|ca| (h.to_string(), ca.version()))
            }).collect()
    })
}

/// Keys `command-N.json` stored for a CA.
fn stored_command_numbers(rt: &KrillRuntime, ca: &str) -> Vec<u64> {
    hooks::with_faults_suspended(|| {
        let Ok(store) = rt.storage().open(krill::constants::CASERVER_NS) else {
            return Vec::new()
        };
        let Ok(scope) = krill::commons::storage::Ident::boxed_from_string(
            ca.to_string()
        ) else { return Vec::new() };
        let mut out: Vec<u64> = store.keys(Some(&scope), "command-")
            .unwrap_or_default().iter().filter_map(|k| {
                k.as_str().strip_prefix("command-")
                    .and_then(|x| x.strip_suffix(".json"))
                    .and_then(|x| x.parse().ok())
            }).collect();
        out.sort();
        out
    })
}

//------------ The run -------------------------------------------------------

#[derive(Clone, Debug)]
struct ReadObs {
    thread: usize,
    ca: String,
    version: u64,
    digest: String,
}

pub fn run(seed: u64, profile: &ConcProfile, replay: Option<Vec<u16>>) -> RunReport {
    let t0 = std::time::Instant::now();
    let mut report = RunReport {
        profile: profile.name.to_string(), seed, ..Default::default()
    };
    let base = world::make_run_dir(seed, profile.name);
    let mut violations: Vec<Violation> = Vec::new();

    //--- Run A: prefix, then the concurrent phase.
    let built = match build(seed, profile, &base.join("A")) {
        Ok(b) => b,
        Err(err) => {
            report.harness_error = Some(format!("prefix A: {err}"));
            world::remove_run_dir(&base);
            return report
        }
    };
    let Built { mut runner, thread_ops, digest: digest_a, config } = built;
    report.config = config;
    let n_api = thread_ops.len();
    let before_versions = versions(&runner);
    let mgr = runner.world.inst(0).mgr().clone();
    let rt = runner.world.inst(0).rt().clone();
    let started_at = runner.world.inst(0).started_at;
    let results: Arc<Mutex<BTreeMap<(usize, usize), String>>> = Default::default();
    let reads: Arc<Mutex<Vec<ReadObs>>> = Default::default();
    // (CA, versions listed, total reported, every record has an actor)
    #[allow(clippy::type_complexity)]
    let history_reads: Arc<Mutex<Vec<(String, Vec<u64>, usize, bool)>>>
        = Default::default();
    let api_done = Arc::new(AtomicUsize::new(0));
    let ca_names: Vec<String> = before_versions.keys().cloned().collect();

    let mut specs: Vec<ThreadSpec> = Vec::new();
    for (t, ops) in thread_ops.iter().cloned().enumerate() {
        let (mgr, results, api_done) = (mgr.clone(), results.clone(), api_done.clone());
        specs.push(ThreadSpec {
            name: format!("api{t}"),
            slow: false,
            body: Box::new(move || {
                for (i, op) in ops.iter().enumerate() {
                    hooks::log(format!("begin {t}.{i} {}", op.kind()));
                    let res = api_call(&mgr, op);
                    hooks::log(format!("end {t}.{i} {res}"));
                    results.lock().unwrap().insert((t, i), res);
                }
                api_done.fetch_add(1, Ordering::SeqCst);
            }),
        });
    }
    if profile.readers {
        let (rt, reads, api_done, names) = (
            rt.clone(), reads.clone(), api_done.clone(), ca_names.clone()
        );
        let t = specs.len();
        specs.push(ThreadSpec {
            name: "reader".into(),
            slow: false,
            body: Box::new(move || {
                use krill::commons::eventsourcing::Aggregate;
                let mut rounds = 0;
                while rounds < 12 {
                    rounds += 1;
                    for name in &names {
                        if let Ok(ca) = rt.ca_manager().get_ca(&handle(name)) {
                            let mut roas: Vec<String> = ca.configured_roas()
                                .iter().map(|c| c.roa_configuration.to_string())
                                .collect();
                            roas.sort();
                            let mut aspas: Vec<String> = ca
                                .aspas_definitions_show().as_slice().iter()
                                .map(|d| d.to_string()).collect();
                            aspas.sort();
                            let info = ca.as_ca_info();
                            let mut children: Vec<String> = info.children
                                .iter().map(|c| {
                                    ca.get_child(c).map(|d| {
                                        let i = d.to_info();
                                        format!(
                                            "{c}:{}:{:?}",
                                            i.entitled_resources, i.state
                                        )
                                    }).unwrap_or_default()
                                }).collect();
                            children.sort();
                            reads.lock().unwrap().push(ReadObs {
                                thread: t,
                                ca: name.clone(),
                                version: ca.version(),
                                digest: crate::util::sha256_hex(
                                    format!("{roas:?}{aspas:?}{children:?}")
                                        .as_bytes()
                                ),
                            });
                        }
                    }
                    if api_done.load(Ordering::SeqCst) >= n_api && rounds >= 3 {
                        break
                    }
                    sched::switch_point("reader_round");
                }
            }),
        });
    }
    // Two threads that page through the command history of every CA while
    // commands are being recorded (the history API of C07; with the
    // history cache on they share and extend one cached list).
    if profile.readers {
        for h in 0..2 {
            let (rt, hist, api_done, names) = (
                rt.clone(), history_reads.clone(), api_done.clone(),
                ca_names.clone()
            );
            specs.push(ThreadSpec {
                name: format!("historian{h}"),
                slow: false,
                body: Box::new(move || {
                    let mut rounds = 0;
                    while rounds < 8 {
                        rounds += 1;
                        for name in &names {
                            let crit = api::history::CommandHistoryCriteria
                                ::default();
                            if let Ok(history) = rt.ca_manager().ca_history(
                                &handle(name), crit
                            ) {
                                hist.lock().unwrap().push((
                                    name.clone(),
                                    history.commands.iter()
                                        .map(|c| c.version).collect(),
                                    history.total,
                                    history.commands.iter()
                                        .all(|c| !c.actor.is_empty()),
                                ));
                            }
                        }
                        if api_done.load(Ordering::SeqCst) >= n_api
                            && rounds >= 2
                        {
                            break
                        }
                        sched::switch_point("historian_round");
                    }
                }),
            });
        }
    }
    let raw_results: Arc<Mutex<Vec<String>>> = Default::default();
    let n_raw = 3usize;
    let publisher_done = Arc::new(AtomicUsize::new(
        if profile.with_scheduler { 0 } else { 1 }
    ));
    if profile.with_scheduler {
        let (rt, raw_results) = (rt.clone(), raw_results.clone());
        let jail = runner.world.inst(0).cfg.rsync_jail();
        let api_done2 = api_done.clone();
        let publisher_done2 = publisher_done.clone();
        let late_pause = Rng::new(seed).fork("late").below(40);
        // In half of the runs the last request is aimed: it is sent while
        // the scheduler thread is in the middle of an RRDP update (a
        // repository file is being written), the instant at which a new
        // publication can be missed by the running update and by the
        // bookkeeping of the task queue alike.
        let aimed = Rng::new(seed).fork("late-aimed").chance(1, 2);
        let rrdp_writing = Arc::new(AtomicUsize::new(0));
        if aimed {
            let flag = rrdp_writing.clone();
            hooks::state().fs_observer = Some(Arc::new(move |_op, path| {
                let text = path.to_string_lossy();
                if text.contains("/rrdp/") && (
                    text.ends_with("snapshot.xml")
                    || text.ends_with("delta.xml")
                ) {
                    flag.fetch_add(1, Ordering::SeqCst);
                }
            }));
        }
        specs.push(ThreadSpec {
            name: "publisher".into(),
            slow: false,
            body: Box::new(move || {
                for k in 0..n_raw {
                    if k + 1 == n_raw {
                        // The last request comes late, when the CAs have
                        // nothing left to publish: nobody else will cause
                        // an RRDP update after it.
                        let mut spins = 0;
                        while api_done2.load(Ordering::SeqCst) < n_api
                            && spins < 5000
                        {
                            spins += 1;
                            sched::switch_point("publisher_wait");
                        }
                        if aimed {
                            // First make sure an update is on its way
                            // (the second request did that), then wait
                            // for the next repository file to be written.
                            let seen = rrdp_writing.load(Ordering::SeqCst);
                            let mut spins = 0;
                            while rrdp_writing.load(Ordering::SeqCst) == seen
                                && spins < 3000
                            {
                                spins += 1;
                                sched::switch_point("publisher_wait");
                            }
                            hooks::probe("late_publication_aimed");
                        }
                        else {
                            for _ in 0..late_pause {
                                sched::switch_point("publisher_wait");
                            }
                        }
                    }
                    hooks::log(format!("raw publish {k}"));
                    let res = raw_publish(&rt, &jail, k);
                    raw_results.lock().unwrap().push(res);
                    sched::switch_point("publisher_pause");
                }
                publisher_done2.store(1, Ordering::SeqCst);
            }),
        });
    }
    if profile.with_scheduler {
        let (rt, api_done) = (rt.clone(), api_done.clone());
        let publisher_done = publisher_done.clone();
        specs.push(ThreadSpec {
            name: "scheduler".into(),
            slow: true,
            body: Box::new(move || {
                let mut idle = 0;
                loop {
                    let claimed = world::scheduler_step(&rt);
                    if claimed {
                        idle = 0;
                    }
                    else {
                        idle += 1;
                        if api_done.load(Ordering::SeqCst) >= n_api
                            && publisher_done.load(Ordering::SeqCst) > 0
                        {
                            break
                        }
                        if idle > 2000 {
                            break
                        }
                        sched::switch_point("scheduler_idle");
                    }
                }
            }),
        });
    }
    let n_threads = specs.len();
    let sched_rng = Rng::new(seed).fork("sched");
    let mut policy_rng = Rng::new(seed).fork("policy");
    let policy = if policy_rng.chance(1, 2) {
        Policy::Random { preempt_permille: *policy_rng.pick(&[20u32, 100, 300, 700]) }
    }
    else {
        Policy::Pct {
            depth: 1 + policy_rng.usize(4),
            est_len: *policy_rng.pick(&[200u64, 1000, 4000]),
        }
    };
    report.stats.insert(format!("policy.{}", match &policy {
        Policy::Random { .. } => "random", Policy::Pct { .. } => "pct",
    }), 1);
    let trace_start = hooks::state().trace.len();
    let (sreport, outcomes) = sched::run_threads(
        RunConfig {
            policy,
            rng: sched_rng,
            replay,
            step_limit: 400_000,
            thread_init: Arc::new(move |id| {
                hooks::set_current_instance(0);
                seams::set_thread_stream(100 + id as u64);
                seams::set_thread_skew_secs(0);
                hooks::state().sched_started = Some(started_at);
            }),
        },
        specs
    );
    seams::set_thread_stream(0);
    report.stats.insert("sched.steps".into(), sreport.steps);
    report.stats.insert("sched.switches".into(), sreport.switches);
    report.stats.insert("sched.blocked".into(), sreport.blocked_events);
    report.stats.insert("threads".into(), n_threads as u64);
    {
        let mut st = hooks::state();
        st.fs_observer = None;
        for (name, n) in st.probes.iter() {
            report.probes.insert(name.clone(), *n);
        }
    }
    report.probes.insert("lock_contention".into(), (sreport.blocked_events > 0) as u64);
    report.probes.insert(
        "reader_behind_writer".into(), sreport.reader_behind_writer
    );
    if let Some(desc) = &sreport.deadlock {
        violations.push(Violation {
            prop: "C18".into(), rule: "deadlock".into(),
            detail: format!("all unfinished threads wait for ever: {desc}"),
            step: 0,
        });
    }
    if sreport.step_limit_hit {
        violations.push(Violation {
            prop: "C18".into(), rule: "no_completion".into(),
            detail: "the calls did not complete within 400000 scheduling \
                     steps".into(),
            step: 0,
        });
    }
    for (i, outcome) in outcomes.iter().enumerate() {
        match outcome {
            ThreadOutcome::Done => { }
            ThreadOutcome::Aborted => { }
            ThreadOutcome::Crashed => { }
            ThreadOutcome::Fatal(msg) => violations.push(Violation {
                prop: "C18".into(), rule: "daemon_exit".into(),
                detail: format!("thread {i}: the daemon would exit: {msg}"),
                step: 0,
            }),
            ThreadOutcome::Panicked(msg) => violations.push(Violation {
                prop: "C18".into(), rule: "panic".into(),
                detail: format!("thread {i} panicked: {msg}"), step: 0,
            }),
        }
    }
    let results_a = results.lock().unwrap().clone();
    let total_ops: usize = thread_ops.iter().map(|o| o.len()).sum();
    let aborted = sreport.deadlock.is_some() || sreport.step_limit_hit
        || sreport.aborted;
    if !aborted && results_a.len() != total_ops {
        violations.push(Violation {
            prop: "C18".into(), rule: "call_lost".into(),
            detail: format!(
                "{} of {total_ops} calls returned", results_a.len()
            ),
            step: 0,
        });
    }

    // The trace of the concurrent phase: commit order of the operations.
    let trace: Vec<String> = hooks::state().trace[trace_start..].to_vec();
    let mut begin_at: BTreeMap<(usize, usize), usize> = BTreeMap::new();
    let mut commit_at: BTreeMap<(usize, usize), usize> = BTreeMap::new();
    let mut end_at: BTreeMap<(usize, usize), usize> = BTreeMap::new();
    let mut current: BTreeMap<usize, (usize, usize)> = BTreeMap::new();
    for (pos, line) in trace.iter().enumerate() {
        let Some(rest) = line.strip_prefix('T') else { continue };
        let Some((tid, rest)) = rest.split_once(' ') else { continue };
        let Ok(tid) = tid.parse::<usize>() else { continue };
        if let Some(x) = rest.strip_prefix("begin ") {
            let id = x.split(' ').next().unwrap_or("");
            if let Some((t, i)) = id.split_once('.') {
                if let (Ok(t), Ok(i)) = (t.parse(), i.parse()) {
                    current.insert(tid, (t, i));
                    begin_at.insert((t, i), pos);
                }
            }
        }
        else if let Some(x) = rest.strip_prefix("end ") {
            let id = x.split(' ').next().unwrap_or("");
            if let Some((t, i)) = id.split_once('.') {
                if let (Ok(t), Ok(i)) = (t.parse(), i.parse()) {
                    end_at.insert((t, i), pos);
                }
            }
            current.remove(&tid);
        }
        else if rest.contains(":store:") && rest.contains(":command-") {
            if let Some(op) = current.get(&tid) {
                commit_at.entry(*op).or_insert(pos);
            }
        }
    }
    // Whether a call stored a command record is part of its outcome: "ok"
    // with and without effect are different answers.
    let results_a: BTreeMap<(usize, usize), String> = results_a.into_iter()
        .map(|(k, v)| {
            let flag = if commit_at.contains_key(&k) { "+cmd" } else { "" };
            (k, format!("{v}{flag}"))
        }).collect();
    let mut order: Vec<(usize, usize)> = results_a.keys().cloned().collect();
    order.sort_by_key(|k| {
        commit_at.get(k).or_else(|| begin_at.get(k)).copied()
            .unwrap_or(usize::MAX)
    });
    let overlapping = {
        // Two operations overlapped if one began before the other ended.
        let mut ends: BTreeMap<(usize, usize), usize> = BTreeMap::new();
        for (pos, line) in trace.iter().enumerate() {
            if let Some(idx) = line.find(" end ") {
                let id = line[idx + 5..].split(' ').next().unwrap_or("");
                if let Some((t, i)) = id.split_once('.') {
                    if let (Ok(t), Ok(i)) = (t.parse(), i.parse()) {
                        ends.insert((t, i), pos);
                    }
                }
            }
        }
        let keys: Vec<_> = begin_at.keys().cloned().collect();
        let mut n = 0u64;
        for a in &keys {
            for b in &keys {
                if a < b {
                    let (ba, ea) = (begin_at[a], ends.get(a).copied().unwrap_or(usize::MAX));
                    let (bb, eb) = (begin_at[b], ends.get(b).copied().unwrap_or(usize::MAX));
                    if ba < eb && bb < ea { n += 1 }
                }
            }
        }
        n
    };
    report.probes.insert("overlapping_call_pairs".into(), overlapping);
    let same_ca_pairs = {
        let mut n = 0u64;
        let flat: Vec<(usize, &Op)> = thread_ops.iter().enumerate()
            .flat_map(|(t, ops)| ops.iter().map(move |o| (t, o))).collect();
        for (i, a) in flat.iter().enumerate() {
            for b in flat.iter().skip(i + 1) {
                if a.0 != b.0 && target_ca(a.1).is_some()
                    && target_ca(a.1) == target_ca(b.1)
                { n += 1 }
            }
        }
        n
    };
    report.probes.insert("same_entity_pairs".into(), same_ca_pairs);

    //--- C07 on run A: versions, audit log, readers.
    let mut audit_a = BTreeMap::new();
    let mut norm_a = None;
    if !aborted {
        audit_a = audit_records(&runner, &before_versions);
        let after_versions = versions(&runner);
        for (ca, records) in &audit_a {
            let from = before_versions.get(ca).copied().unwrap_or(0);
            let to = after_versions.get(ca).copied().unwrap_or(0);
            let got: Vec<u64> = records.iter().map(|r| r.0).collect();
            let want: Vec<u64> = (from..to).collect();
            if got != want {
                violations.push(Violation {
                    prop: "C07".into(), rule: "versions_not_consecutive".into(),
                    detail: format!(
                        "CA {ca} went from version {from} to {to} but the \
                         history lists versions {got:?}"
                    ),
                    step: 0,
                });
            }
            let stored = stored_command_numbers(&rt, ca);
            let want_all: Vec<u64> = (0..to).collect();
            if stored != want_all {
                violations.push(Violation {
                    prop: "C07".into(), rule: "stored_commands_incomplete".into(),
                    detail: format!(
                        "CA {ca} is at version {to} but the stored command \
                         records are {stored:?}"
                    ),
                    step: 0,
                });
            }
        }
        // History pages read while the commands were recorded: every one
        // lists consecutive versions, each once, and says so in its total.
        let pages = history_reads.lock().unwrap().clone();
        report.probes.insert("history_pages_read".into(), pages.len() as u64);
        for (ca, listed, total, actors) in &pages {
            let consecutive = listed.windows(2).all(|w| w[1] == w[0] + 1);
            let to = after_versions.get(ca).copied().unwrap_or(u64::MAX);
            if !consecutive
                || (listed.len() < 90 && *total != listed.len())
                || listed.last().map(|v| *v >= to).unwrap_or(false)
                || !actors
            {
                violations.push(Violation {
                    prop: "C07".into(), rule: "history_page_wrong".into(),
                    detail: format!(
                        "a history request for CA {ca} (which ended at \
                         version {to}) listed versions {listed:?} with \
                         total {total}{}",
                        if *actors { "" } else { ", a record without actor" }
                    ),
                    step: 0,
                });
                break
            }
        }
        // Readers.
        let reads = reads.lock().unwrap().clone();
        report.probes.insert("reads".into(), reads.len() as u64);
        let mut per_version: BTreeMap<(String, u64), String> = BTreeMap::new();
        let mut last_seen: BTreeMap<(usize, String), u64> = BTreeMap::new();
        for obs in &reads {
            if let Some(prev) = last_seen.get(&(obs.thread, obs.ca.clone())) {
                if obs.version < *prev {
                    violations.push(Violation {
                        prop: "C07".into(), rule: "reader_went_back".into(),
                        detail: format!(
                            "a reader saw CA {} at version {} after version \
                             {prev}", obs.ca, obs.version
                        ),
                        step: 0,
                    });
                }
            }
            last_seen.insert((obs.thread, obs.ca.clone()), obs.version);
            if let Some(to) = after_versions.get(&obs.ca) {
                if obs.version > *to {
                    violations.push(Violation {
                        prop: "C07".into(), rule: "reader_ahead".into(),
                        detail: format!(
                            "a reader saw CA {} at version {} but it ended \
                             at {to}", obs.ca, obs.version
                        ),
                        step: 0,
                    });
                }
            }
            match per_version.get(&(obs.ca.clone(), obs.version)) {
                Some(d) if *d != obs.digest => violations.push(Violation {
                    prop: "C07".into(), rule: "two_states_one_version".into(),
                    detail: format!(
                        "CA {} version {} was read with two different \
                         contents", obs.ca, obs.version
                    ),
                    step: 0,
                }),
                Some(_) => { }
                None => {
                    per_version.insert(
                        (obs.ca.clone(), obs.version), obs.digest.clone()
                    );
                }
            }
        }
        report.probes.insert(
            "distinct_versions_read".into(), per_version.len() as u64
        );
        // Quiescence and the observable state.
        // Background work catches up; then what is served must be what
        // the publication server holds (before anything is re-submitted).
        let _ = runner.exec_pump();
        if runner.dead.is_none() && profile.with_scheduler {
            for res in raw_results.lock().unwrap().iter() {
                if res != "ok" {
                    violations.push(Violation {
                        prop: "C18".into(), rule: "publication_refused".into(),
                        detail: format!(
                            "a valid publication request of the remote \
                             publisher was answered with {res}"
                        ),
                        step: 0,
                    });
                }
            }
            let all: BTreeSet<String> = runner.model.cas.values()
                .map(|c| c.name.clone()).collect();
            for (rule, detail) in crate::c09::followups_done(
                &runner, &all, &BTreeMap::new()
            ) {
                if rule == "rrdp_update_not_done"
                    || rule == "rsync_update_not_done"
                    || rule == "rrdp_files_broken"
                {
                    violations.push(Violation {
                        prop: "C09".into(), rule: rule.clone(),
                        detail: format!(
                            "after the concurrent phase and a full pump: \
                             {detail}"
                        ),
                        step: 0,
                    });
                    // An accepted publication that is not served once
                    // background work has caught up is also lost work in
                    // the sense of C18.
                    violations.push(Violation {
                        prop: "C18".into(),
                        rule: "accepted_publication_not_served".into(),
                        detail: format!(
                            "after the concurrent phase and a full pump \
                             ({rule}): {detail}"
                        ),
                        step: 0,
                    });
                }
            }
        }
        settle(&mut runner);
        if let Some(dead) = &runner.dead {
            violations.push(Violation {
                prop: "C18".into(), rule: "dies_after".into(),
                detail: format!("pumping after the concurrent phase: {dead}"),
                step: 0,
            });
        }
        else {
            let norm = crate::cuts::norm_state(&runner);
            if let Some(issues) = norm.get("rp_issues").and_then(|i| i.as_array()) {
                for issue in issues {
                    let text = issue.as_str().unwrap_or("");
                    if !text.contains("expired") && !text.contains("stale")
                        && !text.contains(&format!("/{RAW_PUBLISHER}/"))
                    {
                        violations.push(Violation {
                            prop: "C18".into(), rule: "tree_invalid".into(),
                            detail: format!(
                                "after quiescence the relying party reports: \
                                 {text}"
                            ),
                            step: 0,
                        });
                    }
                }
            }
            norm_a = Some(strip_packaging(norm));
        }
    }
    violations.extend(runner.violations.drain(..).filter(|v| {
        v.prop == "LIVENESS"
    }));
    let kv_a = hooks::state().kv_mutations;
    let fs_a = hooks::state().fs_mutations;
    report.sim_secs = runner.world.sim_secs;
    for inst in runner.world.insts.iter_mut() {
        inst.stop();
    }
    drop(runner);
    drop(mgr);
    drop(rt);

    //--- Run B: the serial witness, on a thread of its own (a fresh
    // thread draws the same per-thread hasher keys as run A's did).
    let mut witness_ok = None;
    if !aborted && norm_a.is_some() {
        let keys: Vec<(usize, usize)> = results_a.keys().cloned().collect();
        let candidates = candidate_orders(
            &keys, &commit_at, &begin_at, &end_at,
            if profile.with_scheduler { 1 } else { 24 }
        );
        report.stats.insert("witness.candidates".into(), candidates.len() as u64);
        let mut chosen = None;
        let mut first = None;
        let mut tried = 0u64;
        for cand in &candidates {
            tried += 1;
            let (p2, base_b, order2) = (
                profile.clone(), base.join(format!("B{tried}")), cand.clone()
            );
            let out = std::thread::Builder::new()
                .stack_size(32 * 1024 * 1024)
                .spawn(move || run_witness(seed, &p2, &base_b, &order2))
                .expect("spawn witness").join()
                .unwrap_or_else(|p| Err(crate::util::panic_message(&p)));
            let matched = matches!(&out, Ok(w) if w.results == results_a);
            if first.is_none() {
                first = Some((cand.clone(), out));
                if matched {
                    chosen = first.take();
                    break
                }
            }
            else if matched {
                chosen = Some((cand.clone(), out));
                break
            }
            if matches!(first, Some((_, Err(_)))) {
                break
            }
        }
        report.stats.insert("witness.tried".into(), tried);
        let (order, out) = chosen.or(first).expect("at least one candidate");
        match out {
            Err(err) => {
                report.harness_error = Some(format!("witness: {err}"));
            }
            Ok(w) => {
                if w.digest != digest_a {
                    report.harness_error = Some(
                        "the prefix is not deterministic (digests of run A \
                         and run B differ)".into()
                    );
                }
                else {
                    let (results_b, audit_b, norm_b) = (
                        w.results, w.audit, w.norm
                    );
                    let same_results = results_b == results_a;
                    if !same_results {
                        if profile.with_scheduler {
                            // The outcome of a command may legitimately
                            // depend on a background task that ran in
                            // between; the witness has no tasks in it.
                            *report.stats.entry("witness.undecided".into())
                                .or_insert(0) += 1;
                        }
                        else {
                            let diff: Vec<String> = results_a.iter()
                                .filter(|(k, v)| results_b.get(k) != Some(v))
                                .map(|(k, v)| format!(
                                    "{}.{} {}: concurrent {v}, serial {}",
                                    k.0, k.1, thread_ops[k.0][k.1].kind(),
                                    results_b.get(k).cloned().unwrap_or_default()
                                )).collect();
                            violations.push(Violation {
                                prop: "C07".into(),
                                rule: "results_not_serialisable".into(),
                                detail: format!(
                                    "issued one at a time in commit order \
                                     {order:?} the calls answer differently: \
                                     {diff:?}"
                                ),
                                step: 0,
                            });
                        }
                    }
                    else {
                        witness_ok = Some(true);
                        // Audit records: same multiset per CA.
                        if !profile.with_scheduler {
                            for (ca, recs_a) in &audit_a {
                                let strip = |v: &Vec<(u64, String, String, bool)>| {
                                    let mut x: Vec<(String, String, bool)> = v.iter()
                                        .map(|r| (r.1.clone(), r.2.clone(), r.3))
                                        .collect();
                                    x.sort();
                                    x
                                };
                                let a = strip(recs_a);
                                let b = audit_b.get(ca).map(strip)
                                    .unwrap_or_default();
                                if a != b {
                                    violations.push(Violation {
                                        prop: "C07".into(),
                                        rule: "audit_differs_from_serial".into(),
                                        detail: format!(
                                            "CA {ca}: audit records of the \
                                             concurrent run {a:?} vs serial \
                                             {b:?}"
                                        ),
                                        step: 0,
                                    });
                                }
                            }
                        }
                        // With background synchronisations running in
                        // between, a class that lost all its resources for
                        // a moment may have been dropped and created again
                        // under a fresh name (as in C08, class names are
                        // not compared, and a re-created class has finished
                        // its roll).
                        let aligned = match (&norm_a, &norm_b) {
                            (Some(a), Some(b)) if profile.with_scheduler => {
                                let (b2, a2) = crate::cuts::align_recreated(b, a);
                                if a2 != *a || b2 != *b {
                                    report.stats.insert(
                                        "c18.class_names_aligned".into(), 1
                                    );
                                }
                                (Some(a2), Some(b2))
                            }
                            (Some(a), Some(b)) => (Some(a.clone()), Some(b.clone())),
                            _ => (None, None),
                        };
                        let norm_a_orig = norm_a.clone();
                        let (norm_a, norm_b) = aligned;
                        // The serial execution C18 speaks of contains the
                        // background tasks as well: if the state differs,
                        // look for one in which the tasks ran between the
                        // calls - after every call, or after one of them.
                        let mut explained_by_tasks = false;
                        if profile.with_scheduler && norm_a != norm_b {
                            if let (Some(a_orig), true) = (&norm_a_orig, same_results) {
                                let n = order.len();
                                let mut variants: Vec<Vec<bool>> = vec![vec![true; n]];
                                for k in 0..n.saturating_sub(1) {
                                    let mut v = vec![false; n];
                                    v[k] = true;
                                    variants.push(v);
                                }
                                for (vi, pumps) in variants.into_iter().enumerate() {
                                    let (p2, base_v, order2) = (
                                        profile.clone(),
                                        base.join(format!("V{vi}")),
                                        order.clone(),
                                    );
                                    let out = std::thread::Builder::new()
                                        .stack_size(32 * 1024 * 1024)
                                        .spawn(move || run_witness_with_tasks(
                                            seed, &p2, &base_v, &order2, &pumps
                                        ))
                                        .expect("spawn witness").join()
                                        .unwrap_or_else(|p| Err(
                                            crate::util::panic_message(&p)
                                        ));
                                    *report.stats.entry(
                                        "witness.task_variants_tried".into()
                                    ).or_insert(0) += 1;
                                    if let Ok(w) = out {
                                        if w.digest != digest_a
                                            || w.results != results_a
                                        {
                                            continue
                                        }
                                        if let Some(nb) = &w.norm {
                                            let (b2, a2) = crate::cuts::align_recreated(nb, a_orig);
                                            if a2 == b2 {
                                                explained_by_tasks = true;
                                                report.stats.insert(
                                                    "witness.matched_with_tasks".into(), 1
                                                );
                                                break
                                            }
                                        }
                                    }
                                }
                            }
                        }
                        let (norm_a, norm_b) = if explained_by_tasks {
                            (None, None)
                        } else { (norm_a, norm_b) };
                        if let (Some(a), Some(b)) = (&norm_a, &norm_b) {
                            if a != b && std::env::var_os("VERIF_DEBUG").is_some() {
                                eprintln!(
                                    "--- concurrent\n{}\n--- serial\n{}",
                                    serde_json::to_string_pretty(a).unwrap(),
                                    serde_json::to_string_pretty(b).unwrap()
                                );
                            }
                            if a != b {
                                let prop = if profile.with_scheduler {
                                    "C18"
                                } else { "C07" };
                                // A maintenance run (forced or due
                                // re-publication) overlapped the calls:
                                // the re-issue must not have changed or
                                // lost any content (C14).
                                let maintenance = thread_ops.iter().flatten()
                                    .any(|op| matches!(
                                        op, Op::RepublishAll { .. }
                                    ));
                                let deletion = thread_ops.iter().flatten()
                                    .any(|op| matches!(
                                        op, Op::DeleteCa { .. }
                                    ));
                                if profile.with_scheduler && maintenance
                                    && !deletion
                                {
                                    violations.push(Violation {
                                        prop: "C14".into(),
                                        rule: "maintenance_overlap_changed_content".into(),
                                        detail: format!(
                                            "a re-publication run that \
                                             overlapped other requests left \
                                             a state no serial execution \
                                             gives: {}",
                                            first_diff(b, a).unwrap_or_default()
                                        ),
                                        step: 0,
                                    });
                                }
                                violations.push(Violation {
                                    prop: prop.into(),
                                    rule: "state_not_serialisable".into(),
                                    detail: format!(
                                        "after quiescence the observable \
                                         state differs from that of the \
                                         same calls issued one at a time in \
                                         commit order {order:?}: {}",
                                        first_diff(b, a).unwrap_or_default()
                                    ),
                                    step: 0,
                                });
                            }
                        }
                    }
                }
            }
        }
    }
    report.stats.insert(
        "witness.matched".into(), (witness_ok == Some(true)) as u64
    );
    seams::enable(false);
    report.tasks_run = hooks::state().tasks_claimed;
    report.kv_mutations = kv_a;
    report.fs_mutations = fs_a;
    report.ops = thread_ops.iter().flatten().cloned().collect();
    report.results = report.ops.iter().enumerate().map(|(n, _)| {
        // Flattened in thread order.
        let mut k = n;
        for (t, ops) in thread_ops.iter().enumerate() {
            if k < ops.len() {
                return results_a.get(&(t, k)).cloned().unwrap_or_default()
            }
            k -= ops.len();
        }
        String::new()
    }).collect();
    report.extra_decisions = sreport.decisions.clone();
    report.fingerprint = crate::util::sha256_hex(
        format!("{:?}{:?}{:?}", sreport.decisions, report.ops, results_a)
            .as_bytes()
    );
    report.state_changing_ops = results_a.values()
        .filter(|r| r.starts_with("ok")).count() as u64;
    report.caught_up_checks = 1;
    report.violations = violations;
    // One per rule.
    let mut seen = BTreeSet::new();
    report.violations.retain(|v| seen.insert((v.prop.clone(), v.rule.clone())));
    report.wall_ms = t0.elapsed().as_millis() as u64;
    world::remove_run_dir(&base);
    report
}

/// Background work catches up; children then ask their parents once more
/// (a parent cannot notify a remote child, and what a relying party sees in
/// between is the window C01 describes) and background work catches up
/// again.
fn settle(r: &mut Runner) {
    for round in 0..3 {
        let _ = r.exec_pump();
        if r.dead.is_some() { return }
        if round < 2 {
            let inst = r.world.inst(0);
            inst.enter();
            let _ = block_on(inst.mgr().cas_refresh_all());
            let _ = block_on(inst.mgr().cas_repo_sync_all());
        }
    }
}

/// How many objects carry the payload depends on the path taken (ROA
/// aggregation has hysteresis between its two thresholds); the validated
/// payload itself is compared.
fn strip_packaging(mut norm: serde_json::Value) -> serde_json::Value {
    if let Some(obj) = norm.as_object_mut() {
        obj.remove("shapes");
        if let Some(cas) = obj.get_mut("cas").and_then(|c| c.as_object_mut()) {
            for (_, ca) in cas.iter_mut() {
                if let Some(roas) = ca.get_mut("roas").and_then(|r| r.as_array_mut()) {
                    for item in roas.iter_mut() {
                        if let Some(text) = item.as_str() {
                            if let Some((cfg, _)) = text.rsplit_once(" objects:") {
                                *item = serde_json::Value::String(cfg.to_string());
                            }
                        }
                    }
                }
            }
        }
    }
    norm
}

/// Orders in which the calls may have taken effect.
///
/// A call that stored a command took effect at that store; the relative
/// order of those is fixed. A call that stored none (refused before the
/// entity, or without effect) took effect somewhere between its start and
/// its end. Every candidate respects each thread's program order and the
/// real-time order of calls that did not overlap.
fn candidate_orders(
    keys: &[(usize, usize)],
    commit_at: &BTreeMap<(usize, usize), usize>,
    begin_at: &BTreeMap<(usize, usize), usize>,
    end_at: &BTreeMap<(usize, usize), usize>,
    max: usize,
) -> Vec<Vec<(usize, usize)>> {
    let at = |k: &(usize, usize), use_end: bool| -> usize {
        commit_at.get(k).copied().unwrap_or_else(|| {
            if use_end { end_at.get(k) } else { begin_at.get(k) }
                .copied().unwrap_or(usize::MAX)
        })
    };
    let mut primary = keys.to_vec();
    primary.sort_by_key(|k| at(k, false));
    let mut out = vec![primary];
    if max <= 1 {
        return out
    }
    let mut by_end = keys.to_vec();
    by_end.sort_by_key(|k| at(k, true));
    if !out.contains(&by_end) {
        out.push(by_end);
    }
    if keys.len() > 7 {
        return out
    }
    // All linear extensions (bounded).
    let must_precede = |a: &(usize, usize), b: &(usize, usize)| -> bool {
        if a.0 == b.0 && a.1 < b.1 {
            return true
        }
        if let (Some(ea), Some(bb)) = (end_at.get(a), begin_at.get(b)) {
            if ea < bb {
                return true
            }
        }
        if let (Some(ca), Some(cb)) = (commit_at.get(a), commit_at.get(b)) {
            if ca < cb {
                return true
            }
        }
        false
    };
    fn extend(
        prefix: &mut Vec<(usize, usize)>, rest: &mut Vec<(usize, usize)>,
        must: &dyn Fn(&(usize, usize), &(usize, usize)) -> bool,
        out: &mut Vec<Vec<(usize, usize)>>, max: usize,
    ) {
        if out.len() >= max {
            return
        }
        if rest.is_empty() {
            if !out.contains(prefix) {
                out.push(prefix.clone());
            }
            return
        }
        for i in 0..rest.len() {
            let cand = rest[i];
            if rest.iter().any(|other| *other != cand && must(other, &cand)) {
                continue
            }
            rest.remove(i);
            prefix.push(cand);
            extend(prefix, rest, must, out, max);
            prefix.pop();
            rest.insert(i, cand);
        }
    }
    let mut rest = keys.to_vec();
    extend(&mut Vec::new(), &mut rest, &must_precede, &mut out, max);
    out
}

struct WitnessOut {
    digest: String,
    results: BTreeMap<(usize, usize), String>,
    audit: BTreeMap<String, Vec<(u64, String, String, bool)>>,
    norm: Option<serde_json::Value>,
}

/// Builds the same prefix again and issues the calls one at a time.
fn run_witness(
    seed: u64, profile: &ConcProfile, base: &std::path::Path,
    order: &[(usize, usize)],
) -> Result<WitnessOut, String> {
    run_witness_with_tasks(seed, profile, base, order, &[])
}

/// As `run_witness`; after the k-th call the background tasks run until
/// nothing is due if `pumps[k]` is set (the serial execution of C18 is one
/// of calls *and* tasks).
fn run_witness_with_tasks(
    seed: u64, profile: &ConcProfile, base: &std::path::Path,
    order: &[(usize, usize)], pumps: &[bool],
) -> Result<WitnessOut, String> {
    let Built { runner: mut rb, thread_ops: ops_b, digest, .. }
        = build(seed, profile, base)?;
    let before_b = versions(&rb);
    let mgr_b = rb.world.inst(0).mgr().clone();
    rb.world.inst(0).enter();
    let mut results = BTreeMap::new();
    for (pos, (t, i)) in order.iter().enumerate() {
        let v0 = versions(&rb);
        let res = api_call(&mgr_b, &ops_b[*t][*i]);
        let flag = if versions(&rb) != v0 { "+cmd" } else { "" };
        results.insert((*t, *i), format!("{res}{flag}"));
        if pumps.get(pos).copied().unwrap_or(false) {
            let _ = rb.exec_pump();
            if rb.dead.is_some() {
                break
            }
            rb.world.inst(0).enter();
        }
    }
    let audit = audit_records(&rb, &before_b);
    if profile.with_scheduler {
        let rt = rb.world.inst(0).rt().clone();
        let jail = rb.world.inst(0).cfg.rsync_jail();
        for k in 0..3 {
            let _ = raw_publish(&rt, &jail, k);
        }
    }
    let _ = rb.exec_pump();
    settle(&mut rb);
    let norm = if rb.dead.is_none() {
        Some(strip_packaging(crate::cuts::norm_state(&rb)))
    } else { None };
    drop(mgr_b);
    for inst in rb.world.insts.iter_mut() {
        inst.stop();
    }
    Ok(WitnessOut { digest, results, audit, norm })
}

fn first_diff(a: &serde_json::Value, b: &serde_json::Value) -> Option<String> {
    fn walk(a: &serde_json::Value, b: &serde_json::Value, path: &str) -> Option<String> {
        match (a, b) {
            (serde_json::Value::Object(x), serde_json::Value::Object(y)) => {
                let keys: BTreeSet<&String> = x.keys().chain(y.keys()).collect();
                for k in keys {
                    let sub = format!("{path}/{k}");
                    match (x.get(k), y.get(k)) {
                        (Some(p), Some(q)) => {
                            if let Some(d) = walk(p, q, &sub) { return Some(d) }
                        }
                        (p, q) => return Some(format!(
                            "{sub}: serial {} vs concurrent {}",
                            p.map(|v| v.to_string()).unwrap_or("-".into()),
                            q.map(|v| v.to_string()).unwrap_or("-".into())
                        )),
                    }
                }
                None
            }
            _ => {
                if a == b { None } else {
                    Some(format!("{path}: serial {a} vs concurrent {b}"))
                }
            }
        }
    }
    walk(a, b, "")
}

#[allow(dead_code)]
fn _unused(_: SlowKrillRuntime) {}
