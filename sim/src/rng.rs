//! The simulator's own PRNG: xoshiro256** seeded through SplitMix64.
//!
//! One `Rng` is created from `VERIF_SEED` per run; independent sub-streams
//! (workload, scheduler, faults, network) are forked from it by label so that
//! adding draws to one stream never shifts another.

#[derive(Clone, Debug)]
pub struct Rng {
    s: [u64; 4],
}

fn splitmix(state: &mut u64) -> u64 {
    *state = state.wrapping_add(0x9E37_79B9_7F4A_7C15);
    let mut z = *state;
    z = (z ^ (z >> 30)).wrapping_mul(0xBF58_476D_1CE4_E5B9);
    z = (z ^ (z >> 27)).wrapping_mul(0x94D0_49BB_1331_11EB);
    z ^ (z >> 31)
}

impl Rng {
    pub fn new(seed: u64) -> Self {
        let mut st = seed;
        let s = [
            splitmix(&mut st), splitmix(&mut st),
            splitmix(&mut st), splitmix(&mut st),
        ];
        Rng { s }
    }

    /// Forks an independent stream identified by `label`.
    pub fn fork(&self, label: &str) -> Rng {
        let mut h: u64 = 0xcbf2_9ce4_8422_2325;
        for b in label.bytes() {
            h ^= b as u64;
            h = h.wrapping_mul(0x0000_0100_0000_01B3);
        }
        Rng::new(self.s[0] ^ h.rotate_left(17) ^ self.s[2].rotate_left(31))
    }

    pub fn next_u64(&mut self) -> u64 {
        let result = self.s[1].wrapping_mul(5).rotate_left(7).wrapping_mul(9);
        let t = self.s[1] << 17;
        self.s[2] ^= self.s[0];
        self.s[3] ^= self.s[1];
        self.s[1] ^= self.s[2];
        self.s[0] ^= self.s[3];
        self.s[2] ^= t;
        self.s[3] = self.s[3].rotate_left(45);
        result
    }

    /// Uniform in `0..n` (n > 0).
    pub fn below(&mut self, n: u64) -> u64 {
        debug_assert!(n > 0);
        // Multiply-shift; bias is irrelevant for our purposes.
        ((self.next_u64() as u128 * n as u128) >> 64) as u64
    }

    pub fn range(&mut self, lo: i64, hi_incl: i64) -> i64 {
        lo + self.below((hi_incl - lo + 1) as u64) as i64
    }

    pub fn usize(&mut self, n: usize) -> usize {
        self.below(n as u64) as usize
    }

    pub fn chance(&mut self, num: u64, den: u64) -> bool {
        self.below(den) < num
    }

    pub fn f64(&mut self) -> f64 {
        (self.next_u64() >> 11) as f64 / (1u64 << 53) as f64
    }

    pub fn pick<'a, T>(&mut self, items: &'a [T]) -> &'a T {
        &items[self.usize(items.len())]
    }

    pub fn pick_opt<'a, T>(&mut self, items: &'a [T]) -> Option<&'a T> {
        if items.is_empty() { None } else { Some(self.pick(items)) }
    }

    pub fn shuffle<T>(&mut self, items: &mut [T]) {
        for i in (1..items.len()).rev() {
            let j = self.usize(i + 1);
            items.swap(i, j);
        }
    }
}
