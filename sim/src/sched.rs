//! Cooperative scheduler: real OS threads released one at a time.
//!
//! Simulated threads hold a baton; exactly one runs at any time. They hand
//! the baton back at switch points (Krill's `verif::point` call-outs) and
//! while a lock cannot be taken (`verif::coop_wait`). Every choice is drawn
//! from the run's seeded scheduler stream and appended to the decision
//! trace, which can be replayed.
//!
//! Deadlock is detected structurally: every unfinished thread is blocked on
//! a lock and none of them has seen any progress by another thread since its
//! last attempt.

use std::cell::Cell;
use std::collections::{BTreeMap, BTreeSet};
use std::sync::atomic::{AtomicBool, Ordering};
use std::sync::{Arc, Condvar, Mutex, OnceLock};
use std::time::{Duration, Instant};
use crate::rng::Rng;

static ACTIVE: AtomicBool = AtomicBool::new(false);

thread_local! {
    static MY_ID: Cell<Option<usize>> = const { Cell::new(None) };
}

/// Payload used to unwind all simulated threads (deadlock, crash of the
/// whole instance, step limit).
pub struct AbortPayload;

#[derive(Clone, Debug)]
pub enum Policy {
    /// Uniform random among eligible threads with a preemption probability
    /// in 1/1000.
    Random { preempt_permille: u32 },
    /// PCT-style: strict priorities with `depth` priority change points.
    Pct { depth: usize, est_len: u64 },
}

#[derive(Clone, Debug, PartialEq, Eq)]
enum TState {
    NotStarted,
    Runnable,
    Blocked { lock: String, write: bool, tried_epoch: u64 },
    Finished,
}

struct ThreadInfo {
    name: String,
    state: TState,
    priority: i64,
    slow: bool,
}

#[derive(Default, Clone, Debug)]
pub struct SchedReport {
    pub steps: u64,
    pub switches: u64,
    pub decisions: Vec<u16>,
    pub deadlock: Option<String>,
    pub step_limit_hit: bool,
    pub blocked_events: u64,
    pub reader_behind_writer: u64,
    pub lock_names: BTreeSet<String>,
    pub aborted: bool,
}

struct Inner {
    threads: Vec<ThreadInfo>,
    current: Option<usize>,
    rng: Rng,
    policy: Policy,
    change_points: Vec<u64>,
    low_priority: i64,
    replay: Option<Vec<u16>>,
    replay_pos: usize,
    epoch: u64,
    /// Rounds in which every thread was found blocked and all were given
    /// another try (a lock release is not an event the scheduler sees).
    futile: usize,
    waiting_writers: BTreeMap<String, BTreeSet<usize>>,
    abort: bool,
    step_limit: u64,
    report: SchedReport,
    last_progress: Instant,
}

fn global() -> &'static (Mutex<Option<Inner>>, Condvar) {
    static G: OnceLock<(Mutex<Option<Inner>>, Condvar)> = OnceLock::new();
    G.get_or_init(|| (Mutex::new(None), Condvar::new()))
}

fn lock_inner() -> std::sync::MutexGuard<'static, Option<Inner>> {
    global().0.lock().unwrap_or_else(|e| e.into_inner())
}

pub fn is_active() -> bool {
    ACTIVE.load(Ordering::Relaxed)
}

pub fn my_id() -> Option<usize> {
    MY_ID.with(|c| c.get())
}

impl Inner {
    fn eligible(&self) -> Vec<usize> {
        self.threads.iter().enumerate().filter_map(|(i, t)| {
            match &t.state {
                TState::Runnable => Some(i),
                TState::Blocked { tried_epoch, .. } => {
                    if *tried_epoch < self.epoch { Some(i) } else { None }
                }
                _ => None
            }
        }).collect()
    }

    /// Chooses the next thread to run. `me` is the calling thread if it can
    /// keep running.
    fn choose(&mut self, me: Option<usize>) -> Option<usize> {
        let eligible = self.eligible();
        if eligible.is_empty() {
            return None
        }
        if eligible.len() == 1 {
            return Some(eligible[0])
        }
        // A real choice: replay or draw.
        if let Some(replay) = &self.replay {
            if self.replay_pos < replay.len() {
                let want = replay[self.replay_pos] as usize;
                self.replay_pos += 1;
                if eligible.contains(&want) {
                    self.report.decisions.push(want as u16);
                    return Some(want)
                }
            }
            // Replay exhausted or diverged: keep running if possible.
            let pick = match me {
                Some(me) if eligible.contains(&me) => me,
                _ => eligible[0],
            };
            self.report.decisions.push(pick as u16);
            return Some(pick)
        }
        let pick = match self.policy.clone() {
            Policy::Random { preempt_permille } => {
                match me {
                    Some(me) if eligible.contains(&me) => {
                        let p = if self.threads[me].slow {
                            1000
                        } else {
                            preempt_permille
                        };
                        if self.rng.below(1000) < p as u64 {
                            let others: Vec<usize> = eligible.iter()
                                .copied().filter(|i| *i != me).collect();
                            others[self.rng.usize(others.len())]
                        }
                        else {
                            me
                        }
                    }
                    _ => eligible[self.rng.usize(eligible.len())],
                }
            }
            Policy::Pct { .. } => {
                if let Some(me) = me {
                    if self.change_points.contains(&self.report.steps) {
                        self.low_priority -= 1;
                        self.threads[me].priority = self.low_priority;
                    }
                }
                *eligible.iter().max_by_key(|i| {
                    self.threads[**i].priority
                }).unwrap()
            }
        };
        self.report.decisions.push(pick as u16);
        Some(pick)
    }

    fn describe_blocked(&self) -> String {
        let mut out = String::new();
        for t in &self.threads {
            if let TState::Blocked { lock, write, .. } = &t.state {
                out.push_str(&format!(
                    "{} waits for {} on {}; ",
                    t.name, if *write { "write" } else { "read" },
                    normalise_lock(lock)
                ));
            }
        }
        out
    }
}

/// Lock names carry addresses or absolute paths; strip what varies.
pub fn normalise_lock(name: &str) -> String {
    if let Some(rest) = name.strip_prefix("mem:") {
        // mem:<ptr>:<scope>
        match rest.split_once(':') {
            Some((_, scope)) => format!("mem:{scope}"),
            None => "mem".to_string()
        }
    }
    else if let Some(rest) = name.strip_prefix("flock:") {
        match rest.find("/.locks/") {
            Some(pos) => format!("flock:{}", &rest[pos + 8..]),
            None => name.to_string()
        }
    }
    else {
        name.to_string()
    }
}

/// Hands the baton to `next` and waits until it comes back to `me`.
fn hand_over_and_wait(
    mut guard: std::sync::MutexGuard<'static, Option<Inner>>,
    me: usize, next: Option<usize>,
) {
    let cv = &global().1;
    {
        let inner = guard.as_mut().unwrap();
        if next != Some(me) {
            inner.report.switches += 1;
        }
        inner.current = next;
    }
    cv.notify_all();
    loop {
        {
            let inner = match guard.as_mut() {
                Some(inner) => inner,
                None => {
                    drop(guard);
                    std::panic::panic_any(AbortPayload)
                }
            };
            if inner.abort {
                drop(guard);
                std::panic::panic_any(AbortPayload)
            }
            if inner.current == Some(me) {
                return
            }
        }
        guard = cv.wait(guard).unwrap_or_else(|e| e.into_inner());
    }
}

pub fn switch_point(_site: &'static str) {
    if !ACTIVE.load(Ordering::Relaxed) {
        return
    }
    let Some(me) = MY_ID.with(|c| c.get()) else { return };
    let mut guard = lock_inner();
    let Some(inner) = guard.as_mut() else { return };
    if inner.abort {
        drop(guard);
        std::panic::panic_any(AbortPayload)
    }
    inner.report.steps += 1;
    inner.epoch += 1;
    inner.futile = 0;
    inner.last_progress = Instant::now();
    inner.threads[me].state = TState::Runnable;
    if inner.report.steps > inner.step_limit {
        inner.report.step_limit_hit = true;
        inner.abort = true;
        drop(guard);
        global().1.notify_all();
        std::panic::panic_any(AbortPayload)
    }
    let next = inner.choose(Some(me));
    if next == Some(me) {
        return
    }
    hand_over_and_wait(guard, me, next);
}

pub fn lock_try(lock: &str, write: bool) -> bool {
    if !ACTIVE.load(Ordering::Relaxed) {
        return true
    }
    let Some(me) = MY_ID.with(|c| c.get()) else { return true };
    if write || !lock.starts_with("mem:") && lock != "ca_status_cache" {
        return true
    }
    // std's RwLock keeps new readers out while a writer is waiting.
    let mut guard = lock_inner();
    let Some(inner) = guard.as_mut() else { return true };
    let waiting = inner.waiting_writers.get(lock).map(|set| {
        set.iter().any(|id| *id != me)
    }).unwrap_or(false);
    if waiting {
        inner.report.reader_behind_writer += 1;
    }
    !waiting
}

pub fn lock_blocked(lock: &str, write: bool) {
    if !ACTIVE.load(Ordering::Relaxed) {
        // Sequential mode: a lock that is not free can never become free.
        eprintln!(
            "HARNESS-ERROR: lock {lock} not free in sequential mode \
             (self-deadlock in the code under test?)"
        );
        std::panic::panic_any(
            crate::hooks::FatalPayload(format!("self-deadlock on {lock}"))
        );
    }
    let Some(me) = MY_ID.with(|c| c.get()) else {
        std::thread::yield_now();
        return
    };
    let mut guard = lock_inner();
    let Some(inner) = guard.as_mut() else { return };
    if inner.abort {
        drop(guard);
        std::panic::panic_any(AbortPayload)
    }
    inner.report.blocked_events += 1;
    inner.report.lock_names.insert(normalise_lock(lock));
    if std::env::var_os("VERIF_DEBUG_LOCKS").is_some() {
        eprintln!("lock: thread {me} BLOCKED on {lock} write={write} epoch {}", inner.epoch);
    }
    if write {
        inner.waiting_writers.entry(lock.to_string()).or_default().insert(me);
    }
    let epoch = inner.epoch;
    inner.threads[me].state = TState::Blocked {
        lock: lock.to_string(), write, tried_epoch: epoch
    };
    let mut next = inner.choose(None);
    if next.is_none() && inner.futile <= inner.threads.len() {
        // Everybody is blocked as far as the scheduler knows - but a
        // thread may have *released* a lock since the others last tried
        // (a release is not reported): give everybody another try. Only
        // when a whole round of retries ends here again without anyone
        // getting a lock or reaching a switch point is it a deadlock.
        inner.futile += 1;
        inner.epoch += 1;
        next = inner.choose(None);
    }
    match next {
        None => {
            // Nobody can make progress: deadlock.
            let desc = inner.describe_blocked();
            inner.report.deadlock = Some(desc);
            inner.abort = true;
            drop(guard);
            global().1.notify_all();
            std::panic::panic_any(AbortPayload)
        }
        Some(next) => hand_over_and_wait(guard, me, Some(next)),
    }
}

pub fn lock_event(lock: &str, what: &'static str) {
    if !ACTIVE.load(Ordering::Relaxed) {
        return
    }
    let Some(me) = MY_ID.with(|c| c.get()) else { return };
    let mut guard = lock_inner();
    let Some(inner) = guard.as_mut() else { return };
    inner.threads[me].state = TState::Runnable;
    inner.epoch += 1;
    inner.futile = 0;
    if std::env::var_os("VERIF_DEBUG_LOCKS").is_some() {
        eprintln!("lock: thread {me} GOT {lock} ({what}) epoch {}", inner.epoch);
    }
    if what == "write" {
        if let Some(set) = inner.waiting_writers.get_mut(lock) {
            set.remove(&me);
        }
    }
}

//------------ Running a set of threads --------------------------------------

pub struct ThreadSpec {
    pub name: String,
    pub slow: bool,
    pub body: Box<dyn FnOnce() + Send + 'static>,
}

pub struct RunConfig {
    pub policy: Policy,
    pub rng: Rng,
    pub replay: Option<Vec<u16>>,
    pub step_limit: u64,
    /// Called on each simulated thread before its body runs (thread-locals).
    pub thread_init: Arc<dyn Fn(usize) + Send + Sync>,
}

pub enum ThreadOutcome {
    Done,
    Aborted,
    Crashed,
    Fatal(String),
    Panicked(String),
}

/// Runs the given bodies under the cooperative scheduler until all finish.
///
/// Returns the scheduler report and the outcome of each thread. A real-time
/// watchdog turns a thread stuck outside any switch point into a harness
/// error (exit 2).
pub fn run_threads(
    cfg: RunConfig, specs: Vec<ThreadSpec>,
) -> (SchedReport, Vec<ThreadOutcome>) {
    let n = specs.len();
    let mut rng = cfg.rng;
    let mut threads = Vec::new();
    let mut prios: Vec<i64> = (0..n as i64).map(|i| 1000 + i).collect();
    rng.shuffle(&mut prios);
    for (i, spec) in specs.iter().enumerate() {
        threads.push(ThreadInfo {
            name: spec.name.clone(),
            state: TState::NotStarted,
            priority: prios[i],
            slow: spec.slow,
        });
    }
    let change_points = match &cfg.policy {
        Policy::Pct { depth, est_len } => {
            (0..*depth).map(|_| 1 + rng.below(*est_len)).collect()
        }
        _ => Vec::new()
    };
    {
        let mut guard = lock_inner();
        *guard = Some(Inner {
            threads,
            current: None,
            rng,
            policy: cfg.policy,
            change_points,
            low_priority: 0,
            replay: cfg.replay,
            replay_pos: 0,
            epoch: 1,
            futile: 0,
            waiting_writers: BTreeMap::new(),
            abort: false,
            step_limit: cfg.step_limit,
            report: SchedReport::default(),
            last_progress: Instant::now(),
        });
    }
    ACTIVE.store(true, Ordering::SeqCst);

    let mut handles = Vec::new();
    for (id, spec) in specs.into_iter().enumerate() {
        let init = cfg.thread_init.clone();
        let body = spec.body;
        let handle = std::thread::Builder::new()
            .name(format!("sim-{}", spec.name))
            .stack_size(16 * 1024 * 1024)
            .spawn(move || {
                MY_ID.with(|c| c.set(Some(id)));
                init(id);
                // Wait for the baton.
                let started = {
                    let cv = &global().1;
                    let mut guard = lock_inner();
                    loop {
                        match guard.as_mut() {
                            None => break false,
                            Some(inner) => {
                                if inner.abort { break false }
                                if inner.current == Some(id) { break true }
                            }
                        }
                        guard = cv.wait(guard)
                            .unwrap_or_else(|e| e.into_inner());
                    }
                };
                let outcome = if !started {
                    ThreadOutcome::Aborted
                } else {
                    match std::panic::catch_unwind(
                        std::panic::AssertUnwindSafe(body)
                    ) {
                        Ok(()) => ThreadOutcome::Done,
                        Err(payload) => {
                            if payload.is::<AbortPayload>() {
                                ThreadOutcome::Aborted
                            }
                            else if payload.is::<crate::hooks::CrashPayload>() {
                                ThreadOutcome::Crashed
                            }
                            else if let Some(f) = payload
                                .downcast_ref::<crate::hooks::FatalPayload>()
                            {
                                ThreadOutcome::Fatal(f.0.clone())
                            }
                            else {
                                ThreadOutcome::Panicked(
                                    crate::util::panic_message(&payload)
                                )
                            }
                        }
                    }
                };
                // Finished: pass the baton on.
                {
                    let mut guard = lock_inner();
                    if let Some(inner) = guard.as_mut() {
                        inner.threads[id].state = TState::Finished;
                        inner.epoch += 1;
                        inner.last_progress = Instant::now();
                        for set in inner.waiting_writers.values_mut() {
                            set.remove(&id);
                        }
                        if matches!(
                            outcome,
                            ThreadOutcome::Crashed | ThreadOutcome::Fatal(_)
                        ) {
                            // The whole process dies with this thread.
                            inner.abort = true;
                            inner.report.aborted = true;
                        }
                        if !inner.abort && inner.current == Some(id) {
                            let next = inner.choose(None);
                            if next.is_none()
                                && inner.threads.iter().any(|t| {
                                    !matches!(t.state, TState::Finished)
                                })
                            {
                                let desc = inner.describe_blocked();
                                inner.report.deadlock = Some(desc);
                                inner.abort = true;
                            }
                            inner.current = next;
                        }
                    }
                }
                global().1.notify_all();
                MY_ID.with(|c| c.set(None));
                outcome
            }).expect("spawn simulated thread");
        handles.push(handle);
    }

    // Mark all as runnable and pick the first.
    {
        let mut guard = lock_inner();
        let inner = guard.as_mut().unwrap();
        for t in inner.threads.iter_mut() {
            t.state = TState::Runnable;
        }
        let first = inner.choose(None);
        inner.current = first;
    }
    global().1.notify_all();

    // Wait for completion with a watchdog.
    {
        let cv = &global().1;
        let mut guard = lock_inner();
        loop {
            let inner = guard.as_mut().unwrap();
            let all_done = inner.threads.iter().all(|t| {
                matches!(t.state, TState::Finished)
            });
            if all_done || inner.abort {
                break
            }
            if inner.last_progress.elapsed() > Duration::from_secs(120) {
                eprintln!(
                    "HARNESS-ERROR: watchdog: no switch point reached for \
                     120 s (current={:?}, {})",
                    inner.current, inner.describe_blocked()
                );
                std::process::exit(2);
            }
            let (g, _) = cv.wait_timeout(guard, Duration::from_secs(5))
                .unwrap_or_else(|e| e.into_inner());
            guard = g;
        }
    }
    global().1.notify_all();
    let mut outcomes = Vec::new();
    for handle in handles {
        match handle.join() {
            Ok(outcome) => outcomes.push(outcome),
            Err(_) => outcomes.push(
                ThreadOutcome::Panicked("thread wrapper panicked".into())
            ),
        }
    }
    ACTIVE.store(false, Ordering::SeqCst);
    let report = {
        let mut guard = lock_inner();
        let inner = guard.take().unwrap();
        inner.report
    };
    (report, outcomes)
}
