//! C09: background work is durable and recurring maintenance never stops.
//!
//! Two parts:
//! * `followups_done`: a direct oracle, evaluated at quiescence, that every
//!   follow-up implied by the committed state has been executed: what a CA
//!   holds in its stored object set is at the repository, what the
//!   repository holds is in the served rsync tree and RRDP snapshot, no
//!   request to a live parent is unsent, and no parent still has a
//!   certificate in use for a key its child has dropped.
//! * `run_queue`: the real `TaskQueue` driven by seeded sequences of
//!   schedule / claim / finish / reschedule / time / restart operations
//!   against a small reference model.

use std::collections::{BTreeMap, BTreeSet};
use std::str::FromStr;
use rpki::ca::idexchange::{ParentHandle, PublisherHandle};
use krill::commons::storage::{Ident, StorageSystem};
use krill::server::ca::publishing::CaObjects;
use krill::server::mq::{Priority, Task, TaskQueue};
use crate::history::Runner;
use crate::hooks;
use crate::rng::Rng;
use crate::history::Violation;
use crate::runs::RunReport;
use crate::seams;
use crate::served::{self, ObjSet};
use crate::util::sha256_hex;

//------------ Follow-ups done -----------------------------------------------

/// CAs of instance 0 that have unsent requests for a live parent.
pub fn open_request_cas(r: &Runner) -> BTreeSet<String> {
    let names: Vec<String> = r.model.cas.values()
        .filter(|c| c.inst == 0).map(|c| c.name.clone()).collect();
    names.into_iter().filter(|name| {
        crate::c02::has_open_requests(r, 0, name)
    }).collect()
}

/// The stored object sets of all CAs of instance 0.
pub fn all_stored_objects(r: &Runner) -> BTreeMap<String, ObjSet> {
    hooks::with_faults_suspended(|| {
        let rt = r.world.inst(0).rt();
        rt.ca_manager().ca_handles().unwrap_or_default().iter()
            .filter_map(|h| {
                let name = h.to_string();
                stored_objects(r, &name).map(|set| (name, set))
            }).collect()
    })
}

fn stored_objects(r: &Runner, ca: &str) -> Option<ObjSet> {
    let rt = r.world.inst(0).rt();
    let store = rt.storage().open(krill::constants::CA_OBJECTS_NS).ok()?;
    let key = Ident::boxed_from_string(format!("{ca}.json")).ok()?;
    let objects = store.get::<CaObjects>(None, &key).ok().flatten()?;
    let mut out = ObjSet::new();
    for file in objects.all_publish_elements() {
        out.insert(file.uri.to_string(), sha256_hex(&file.base64.to_bytes()));
    }
    Some(out)
}

/// Returns `(rule, detail)` for every follow-up that was not executed.
///
/// Must only be called at quiescence (after a pump that caught up).
/// `baseline_open` are the CAs that already had unsent requests without
/// any fault (a parent may legitimately keep refusing a request).
pub fn followups_done(
    r: &Runner, baseline_open: &BTreeSet<String>,
    pre_sets: &BTreeMap<String, ObjSet>,
) -> Vec<(String, String)> {
    hooks::with_faults_suspended(|| {
        let mut out = Vec::new();
        let inst = r.world.inst(0);
        if !inst.is_up() {
            return out
        }
        inst.enter();
        let rt = inst.rt();
        let mut handles = rt.ca_manager().ca_handles().unwrap_or_default();
        handles.sort_by_key(|h| h.to_string());
        let publishers: BTreeSet<String> = rt.repo_manager().publishers()
            .unwrap_or_default().iter().map(|p| p.to_string()).collect();

        // (a) stored object set == repository content of the publisher.
        let mut content = ObjSet::new();
        for publisher in rt.repo_manager().publishers().unwrap_or_default() {
            if let Ok(details) = rt.repo_manager().get_publisher_details(
                publisher.clone()
            ) {
                for file in details.current_files {
                    content.insert(
                        file.uri.to_string(),
                        sha256_hex(&file.base64.to_bytes())
                    );
                }
            }
        }
        for handle in &handles {
            let name = handle.to_string();
            let Ok(ca) = rt.ca_manager().get_ca(handle) else { continue };
            if ca.repository_contact().is_err() {
                continue
            }
            if !publishers.contains(&name) {
                continue
            }
            let Some(stored) = stored_objects(r, &name) else { continue };
            let Ok(details) = rt.repo_manager().get_publisher_details(
                PublisherHandle::from_str(&name).unwrap()
            ) else { continue };
            let mut at_repo = ObjSet::new();
            for file in details.current_files {
                at_repo.insert(
                    file.uri.to_string(), sha256_hex(&file.base64.to_bytes())
                );
            }
            if let Some(d) = served::diff(
                "the CA's object set", &stored, "the repository", &at_repo
            ) {
                // If the repository has what the object set was before
                // the interrupted request, the difference is the
                // uncommitted change itself (see C08).
                let rule = if pre_sets.get(&name) == Some(&at_repo) {
                    "repo_sync_not_done_uncommitted"
                }
                else {
                    "repo_sync_not_done"
                };
                out.push((rule.to_string(), format!("CA {name}: {d}")));
            }
        }

        // (b) no unsent requests for live parents.
        for name in open_request_cas(r) {
            if !baseline_open.contains(&name) {
                out.push((
                    "parent_sync_not_done".to_string(),
                    format!(
                        "CA {name} has requests for a parent that were \
                         never sent and no task will send them"
                    )
                ));
            }
        }

        // (c) served files == repository content.
        if rt.repo_manager().is_initialized().unwrap_or(false) {
            let repo_dir = inst.repo_dir();
            match served::fetch_rsync(&repo_dir, &inst.cfg.rsync_jail()) {
                Ok(tree) => {
                    if let Some(d) = served::diff(
                        "the repository content", &content,
                        "the rsync tree", &tree
                    ) {
                        out.push((
                            "rsync_update_not_done".to_string(), d
                        ));
                    }
                }
                Err(err) => out.push(("rsync_unreadable".to_string(), err)),
            }
            match served::fetch_rrdp(&repo_dir, &inst.cfg.rrdp_base_uri()) {
                Ok((view, problems)) => {
                    for p in problems {
                        out.push(("rrdp_files_broken".to_string(), p));
                    }
                    if let Some(d) = served::diff(
                        "the repository content", &content,
                        "the RRDP snapshot", &view.snapshot
                    ) {
                        out.push(("rrdp_update_not_done".to_string(), d));
                    }
                }
                Err(err) => out.push(("rrdp_unreadable".to_string(), err)),
            }
        }

        // (d) keys in use at a parent are keys the child still has.
        for detail in stale_child_keys(r) {
            out.push(("revocation_not_done".to_string(), detail));
        }
        out
    })
}


/// Keys that a (local) parent still has in use for a child although the
/// child no longer has them: the revocation that should have followed a
/// key roll or a dropped class did not happen.
pub fn stale_child_keys(r: &Runner) -> Vec<String> {
    hooks::with_faults_suspended(|| {
        let mut out: Vec<(String, String)> = Vec::new();
        let inst = r.world.inst(0);
        if !inst.is_up() {
            return Vec::new()
        }
        let rt = inst.rt();
        let mut handles = rt.ca_manager().ca_handles().unwrap_or_default();
        handles.sort_by_key(|h| h.to_string());
        for handle in &handles {
            let pname = handle.to_string();
            let Ok(parent) = rt.ca_manager().get_ca(handle) else { continue };
            let info = parent.as_ca_info();
            for child in &info.children {
                let cname = child.to_string();
                let Ok(child_ca) = rt.ca_manager().get_ca(
                    &crate::sim::handle(&cname)
                ) else { continue };
                if !child_ca.parents().any(|p| p.as_str() == pname) {
                    continue
                }
                let Ok(details) = parent.get_child(child) else { continue };
                let child_keys: BTreeSet<String> = r.class_infos(0, &cname)
                    .iter().filter(|c| c.parent == pname)
                    .flat_map(|c| c.key_ids.iter().map(|k| k.1.clone()))
                    .collect();
                let parent_classes: BTreeSet<String> = r.class_infos(0, &pname)
                    .iter().map(|c| c.rcn.clone()).collect();
                for (key, state) in &details.used_keys {
                    // Only classes the parent still has: when the parent
                    // lost the class itself, the certificates it issued
                    // under it are gone with it.
                    let krill::server::ca::UsedKeyState::InUse(rcn) = state
                    else { continue };
                    if !parent_classes.contains(&rcn.to_string()) {
                        continue
                    }
                    if !child_keys.contains(&key.to_string()) {
                        out.push((
                            "revocation_not_done".to_string(),
                            format!(
                                "parent {pname} still has key {key} of child \
                                 {cname} in use, the child no longer has it \
                                 (its keys under this parent: {child_keys:?})"
                            )
                        ));
                    }
                }
            }
        }
        out.into_iter().map(|x| x.1).collect()
    })
}

//------------ Queue against a reference model --------------------------------

#[derive(Clone, Debug)]
enum QOp {
    Schedule { task: usize, delay: i64 },
    ScheduleFinish { task: usize, delay: i64 },
    ScheduleMissing { task: usize, delay: i64 },
    Pop,
    Finish { nth: usize },
    Reschedule { nth: usize, delay: i64 },
    Advance { secs: i64 },
    Restart,
}

/// The reference model: pending and running entries by task name.
#[derive(Clone, Debug, Default)]
struct QModel {
    /// name -> scheduled times (ms) of its pending entries.
    pending: BTreeMap<String, Vec<u128>>,
    /// storage key of the running entry -> name.
    running: BTreeMap<String, String>,
}

impl QModel {
    fn min_pending(&self, name: &str) -> Option<u128> {
        self.pending.get(name).and_then(|v| v.iter().min().copied())
    }

    fn running_has(&self, name: &str) -> bool {
        self.running.values().any(|n| n == name)
    }
}

fn task_pool() -> Vec<Task> {
    let ca = |s: &str| crate::sim::handle(s);
    vec![
        Task::RepublishIfNeeded,
        Task::RenewObjectsIfNeeded,
        Task::UpdateSnapshots,
        Task::RrdpUpdateIfNeeded,
        Task::SyncTrustAnchorProxySignerIfPossible,
        Task::SyncRepo { ca_handle: ca("alice"), ca_version: 1 },
        Task::SyncRepo { ca_handle: ca("bob"), ca_version: 1 },
        Task::SyncRepo { ca_handle: ca("a-b"), ca_version: 1 },
        Task::SyncParent {
            ca_handle: ca("alice"), ca_version: 1,
            parent: ParentHandle::from_str("bob").unwrap(),
        },
        Task::SuspendChildrenIfNeeded { ca_handle: ca("alice") },
    ]
}

fn read_scope(storage: &StorageSystem, scope: &'static str) -> Vec<(u128, String, String)> {
    let Ok(store) = storage.open(krill::constants::TASK_QUEUE_NS) else {
        return Vec::new()
    };
    let mut res = Vec::new();
    if let Ok(keys) = store.keys(Some(Ident::make(scope)), "") {
        for key in keys {
            if let Some((ts, name)) = key.as_str().split_once('-') {
                if let Ok(ts) = ts.parse::<u128>() {
                    res.push((ts, name.to_string(), key.to_string()));
                }
            }
        }
    }
    res.sort();
    res
}

fn now_ms() -> u128 {
    (seams::now_ns() / 1_000_000) as u128
}

/// One seeded run of the queue against the model.
pub fn run_queue(seed: u64) -> RunReport {
    let t0 = std::time::Instant::now();
    let mut report = RunReport {
        profile: "c09queue".into(), seed, ..Default::default()
    };
    let base = crate::world::make_run_dir(seed, "c09queue");
    hooks::state().reset_for_run(&base, true);
    seams::enable(true);
    seams::set_now_secs(1_767_225_600);
    let mut rng = Rng::new(seed).fork("queue");
    let use_disk = rng.chance(3, 4);
    let storage = if use_disk {
        StorageSystem::new_disk(base.join("data"))
    }
    else {
        StorageSystem::new_memory(Some(seed))
    };
    let pool = task_pool();
    // The names under which the tasks are stored, learnt from a scratch
    // queue.
    let mut names: Vec<String> = Vec::new();
    {
        let scratch = StorageSystem::new_memory(Some(seed ^ 0x5eed));
        let Ok(q) = TaskQueue::new(&scratch) else {
            report.harness_error = Some("scratch queue".into());
            return report
        };
        for task in &pool {
            let before: BTreeSet<String> = read_scope(&scratch, "pending")
                .into_iter().map(|x| x.1).collect();
            let _ = q.schedule(task.clone(), Priority::from_timestamp_ms(0));
            let after: BTreeSet<String> = read_scope(&scratch, "pending")
                .into_iter().map(|x| x.1).collect();
            match after.difference(&before).next() {
                Some(name) => names.push(name.clone()),
                None => {
                    report.harness_error = Some(format!(
                        "task {task} has no name of its own"
                    ));
                    return report
                }
            }
        }
    }
    let n_ops = 20 + rng.below(60) as usize;
    let mut model = QModel::default();
    let mut queue = match TaskQueue::new(&storage) {
        Ok(q) => q,
        Err(err) => {
            report.harness_error = Some(format!("queue: {err}"));
            return report
        }
    };
    let mut log: Vec<String> = Vec::new();
    let mut restarts_with_running = BTreeSet::new();
    let violations: std::cell::RefCell<Vec<Violation>> = Default::default();
    let violation = |rule: &str, detail: String, step: usize| {
        violations.borrow_mut().push(Violation {
            prop: "C09".into(), rule: rule.into(), detail, step,
        });
    };

    for step in 0..n_ops {
        let delay = |rng: &mut Rng| -> i64 {
            match rng.below(6) {
                0 => 0,
                1 => -(rng.below(30) as i64),
                2 => 1,
                _ => rng.below(600) as i64,
            }
        };
        let op = match rng.below(20) {
            0..=5 => QOp::Schedule {
                task: rng.below(pool.len() as u64) as usize,
                delay: delay(&mut rng),
            },
            6 => QOp::ScheduleFinish {
                task: rng.below(pool.len() as u64) as usize,
                delay: delay(&mut rng),
            },
            7..=8 => QOp::ScheduleMissing {
                task: rng.below(pool.len() as u64) as usize,
                delay: delay(&mut rng),
            },
            9..=12 => QOp::Pop,
            13..=14 => QOp::Finish { nth: rng.below(4) as usize },
            15..=16 => QOp::Reschedule {
                nth: rng.below(4) as usize, delay: delay(&mut rng),
            },
            17..=18 => QOp::Advance {
                secs: *rng.pick(&[1i64, 5, 60, 600, 3600]),
            },
            _ => QOp::Restart,
        };
        log.push(format!("{step} {op:?}"));
        *report.stats.entry(format!("qop.{}", match &op {
            QOp::Schedule { .. } => "schedule",
            QOp::ScheduleFinish { .. } => "schedule_finish",
            QOp::ScheduleMissing { .. } => "schedule_missing",
            QOp::Pop => "pop",
            QOp::Finish { .. } => "finish",
            QOp::Reschedule { .. } => "reschedule",
            QOp::Advance { .. } => "advance",
            QOp::Restart => "restart",
        })).or_insert(0) += 1;
        let prio = |d: i64| -> Priority {
            Priority::from_timestamp_ms(
                (now_ms() as i128 + d as i128 * 1000) as u128
            )
        };
        match op {
            QOp::Schedule { task, delay } => {
                let p = prio(delay);
                let ts = p.to_millis();
                let name = names[task].clone();
                let res = queue.schedule(pool[task].clone(), p);
                if let Err(err) = res {
                    violation("schedule_fails", format!("{name}: {err}"), step);
                }
                // Keeps the earlier of the two times; does not touch a
                // running entry.
                let new_ts = match model.min_pending(&name) {
                    Some(old) => std::cmp::min(old, ts),
                    None => ts,
                };
                let entry = model.pending.entry(name).or_default();
                // One of the existing entries is replaced.
                if let Some(pos) = entry.iter().position(|_| true) {
                    let _ = pos;
                }
                remove_one_for_replace(entry);
                entry.push(new_ts);
            }
            QOp::ScheduleFinish { task, delay } => {
                let p = prio(delay);
                let ts = p.to_millis();
                let name = names[task].clone();
                let res = queue.schedule_and_finish_existing(
                    pool[task].clone(), p
                );
                if let Err(err) = res {
                    violation("schedule_fails", format!("{name}: {err}"), step);
                }
                // The running entry of that name is finished. If there
                // are several (claimed, scheduled and claimed again), which
                // one is not specified: follow the store if it removed
                // exactly one of them.
                let cands: Vec<String> = model.running.iter()
                    .filter(|(_, n)| **n == name).map(|(k, _)| k.clone())
                    .collect();
                let real: BTreeSet<String> = read_scope(&storage, "running")
                    .into_iter().map(|x| x.2).collect();
                let gone: Vec<&String> = cands.iter()
                    .filter(|k| !real.contains(*k)).collect();
                if cands.len() > 1 && gone.len() == 1 {
                    model.running.remove(gone[0]);
                }
                else if let Some(key) = cands.first() {
                    model.running.remove(key);
                }
                let new_ts = match model.min_pending(&name) {
                    Some(old) => std::cmp::min(old, ts),
                    None => ts,
                };
                let entry = model.pending.entry(name).or_default();
                remove_one_for_replace(entry);
                entry.push(new_ts);
            }
            QOp::ScheduleMissing { task, delay } => {
                let p = prio(delay);
                let ts = p.to_millis();
                let name = names[task].clone();
                let res = queue.schedule_missing(pool[task].clone(), p);
                if let Err(err) = res {
                    violation("schedule_fails", format!("{name}: {err}"), step);
                }
                if model.min_pending(&name).is_none()
                    && !model.running_has(&name)
                {
                    model.pending.entry(name).or_default().push(ts);
                }
            }
            QOp::Pop => {
                let now = now_ms();
                let due_min = model.pending.iter()
                    .flat_map(|(n, v)| v.iter().map(move |t| (*t, n.clone())))
                    .filter(|(t, _)| *t <= now)
                    .map(|(t, _)| t).min();
                let popped = queue.pop();
                match (popped, due_min) {
                    (None, None) => { }
                    (None, Some(t)) => violation(
                        "due_task_not_handed_out",
                        format!(
                            "a task due at {t} (now {now}) is pending but \
                             pop returned nothing; pending {:?}",
                            model.pending
                        ),
                        step
                    ),
                    (Some((key, _)), None) => violation(
                        "task_handed_out_early",
                        format!(
                            "pop returned {key} but no pending task is due \
                             at {now}; pending {:?}", model.pending
                        ),
                        step
                    ),
                    (Some((key, value)), Some(t)) => {
                        let key = key.to_string();
                        let name = key.split_once('-')
                            .map(|x| x.1.to_string()).unwrap_or_default();
                        // Which pending entry was it? The earliest due.
                        let cands: Vec<String> = model.pending.iter()
                            .filter(|(_, v)| v.contains(&t))
                            .map(|(n, _)| n.clone()).collect();
                        if !cands.contains(&name) {
                            violation(
                                "not_earliest_first",
                                format!(
                                    "pop returned {key}; the earliest due \
                                     time is {t} held by {cands:?}; pending \
                                     {:?}", model.pending
                                ),
                                step
                            );
                            // Resynchronise the model with what happened.
                            if let Some(v) = model.pending.get_mut(&name) {
                                if let Some(min) = v.iter().min().copied() {
                                    let pos = v.iter().position(|x| *x == min)
                                        .unwrap();
                                    v.remove(pos);
                                }
                            }
                        }
                        else if let Some(v) = model.pending.get_mut(&name) {
                            let pos = v.iter().position(|x| *x == t).unwrap();
                            v.remove(pos);
                        }
                        if model.pending.get(&name).map(|v| v.is_empty())
                            .unwrap_or(false)
                        {
                            model.pending.remove(&name);
                        }
                        let parsed: Result<Task, _> =
                            serde_json::from_value(value);
                        match parsed {
                            Ok(task) => {
                                let want = names.iter().position(|n| *n == name)
                                    .map(|i| pool[i].to_string());
                                if Some(task.to_string()) != want {
                                    violation(
                                        "wrong_task_value",
                                        format!("{key} carries task {task}"),
                                        step
                                    );
                                }
                            }
                            Err(err) => violation(
                                "task_value_unreadable",
                                format!("{key}: {err}"), step
                            ),
                        }
                        model.running.insert(key, name);
                    }
                }
            }
            QOp::Finish { nth } => {
                let keys: Vec<String> = model.running.keys().cloned().collect();
                if let Some(key) = keys.get(nth) {
                    let ident = Ident::boxed_from_string(key.clone()).unwrap();
                    if let Err(err) = queue.finish(&ident) {
                        violation(
                            "finish_fails", format!("{key}: {err}"), step
                        );
                    }
                    model.running.remove(key);
                }
            }
            QOp::Reschedule { nth, delay } => {
                let keys: Vec<String> = model.running.keys().cloned().collect();
                if let Some(key) = keys.get(nth) {
                    let p = prio(delay);
                    let ident = Ident::boxed_from_string(key.clone()).unwrap();
                    if let Err(err) = queue.reschedule(&ident, p) {
                        violation(
                            "reschedule_fails", format!("{key}: {err}"), step
                        );
                    }
                    let name = model.running.remove(key).unwrap();
                    model.pending.entry(name).or_default().push(p.to_millis());
                }
            }
            QOp::Advance { secs } => {
                seams::advance_secs(secs);
                report.sim_secs += secs;
            }
            QOp::Restart => {
                restarts_with_running.insert(model.running.len());
                *report.stats.entry(
                    format!("restart.running_{}", std::cmp::min(model.running.len(), 3))
                ).or_insert(0) += 1;
                drop(queue);
                queue = match TaskQueue::new(&storage) {
                    Ok(q) => q,
                    Err(err) => {
                        report.harness_error = Some(format!("queue: {err}"));
                        return report
                    }
                };
                if let Err(err) = queue.reschedule_tasks_at_startup() {
                    violation(
                        "startup_reschedule_fails", err.to_string(), step
                    );
                }
                let now = now_ms();
                let running = std::mem::take(&mut model.running);
                for (_, name) in running {
                    model.pending.entry(name).or_default().push(now);
                }
            }
        }

        // Compare the stored queue with the model.
        let pending = read_scope(&storage, "pending");
        let running = read_scope(&storage, "running");
        let mut real_pending: BTreeMap<String, Vec<u128>> = BTreeMap::new();
        for (ts, name, _) in &pending {
            real_pending.entry(name.clone()).or_default().push(*ts);
        }
        let real_running: BTreeSet<String> =
            running.iter().map(|x| x.2.clone()).collect();
        let model_running: BTreeSet<String> =
            model.running.keys().cloned().collect();
        if real_running != model_running {
            violation(
                "running_set_differs",
                format!(
                    "after {:?}: running {real_running:?}, expected \
                     {model_running:?}", log.last()
                ),
                step
            );
            break
        }
        let names_real: BTreeSet<&String> = real_pending.keys().collect();
        let names_model: BTreeSet<&String> = model.pending.keys().collect();
        if names_real != names_model {
            violation(
                "pending_task_lost_or_invented",
                format!(
                    "after {:?}: pending {names_real:?}, expected \
                     {names_model:?}", log.last()
                ),
                step
            );
            break
        }
        for (name, times) in &model.pending {
            let want = times.iter().min().copied();
            let got = real_pending.get(name)
                .and_then(|v| v.iter().min().copied());
            // Restart re-queues "now" as the queue reads it: allow equality
            // only; both read the same virtual clock.
            if want != got {
                violation(
                    "earlier_time_not_kept",
                    format!(
                        "after {:?}: {name} is pending for {got:?}, \
                         expected {want:?}", log.last()
                    ),
                    step
                );
            }
        }
        if !violations.borrow().is_empty() {
            break
        }
        // Keep the model's multiplicities in line with the store (the
        // number of entries per name is not part of the property).
        for (name, times) in real_pending {
            model.pending.insert(name, times);
        }
    }
    drop(queue);
    seams::enable(false);
    let (kv, fs) = {
        let st = hooks::state();
        (st.kv_mutations, st.fs_mutations)
    };
    report.kv_mutations = kv;
    report.fs_mutations = fs;
    report.violations = violations.into_inner();
    report.fingerprint = sha256_hex(log.join("\n").as_bytes());
    report.results = log;
    report.state_changing_ops = n_ops as u64;
    report.caught_up_checks = n_ops as u64;
    report.probes.insert(
        "restart_with_0_running".into(),
        restarts_with_running.contains(&0) as u64
    );
    report.probes.insert(
        "restart_with_1_running".into(),
        restarts_with_running.contains(&1) as u64
    );
    report.probes.insert(
        "restart_with_2plus_running".into(),
        restarts_with_running.iter().any(|n| *n >= 2) as u64
    );
    report.config = format!("disk={use_disk} ops={n_ops}");
    report.wall_ms = t0.elapsed().as_millis() as u64;
    crate::world::remove_run_dir(&base);
    report
}

/// Schedule replaces one existing pending entry of that name (the first the
/// store lists); which one is not observable through the property, so the
/// model is re-aligned with the store after every step. Here: drop the
/// entry with the smallest time (the new entry carries min(old, new)).
fn remove_one_for_replace(entry: &mut Vec<u128>) {
    if let Some(min) = entry.iter().min().copied() {
        let pos = entry.iter().position(|x| *x == min).unwrap();
        entry.remove(pos);
    }
}
