//! Operations: representation, seeded generation against the model state.

use serde::{Deserialize, Serialize};
use crate::model::{Model, Pfx, Res, RoaKey, AS_BLOCKS, V4_BLOCKS, V6_BLOCKS};
use crate::rng::Rng;

#[derive(Clone, Debug, PartialEq, Eq, Serialize, Deserialize)]
pub struct RoaSpec {
    pub asn: u32,
    pub pfx: Pfx,
    pub max_len: Option<u8>,
    pub comment: Option<String>,
}

impl RoaSpec {
    pub fn key(&self) -> RoaKey {
        RoaKey {
            asn: self.asn,
            prefix: self.pfx.text(),
            max_len: self.max_len.unwrap_or(self.pfx.len),
        }
    }

    pub fn max_len_valid(&self) -> bool {
        match self.max_len {
            None => true,
            Some(ml) => ml >= self.pfx.len && ml <= self.pfx.family_len(),
        }
    }

    pub fn config_text(&self) -> String {
        let mut s = self.pfx.text();
        if let Some(ml) = self.max_len {
            s.push_str(&format!("-{ml}"));
        }
        s.push_str(&format!(" => {}", self.asn));
        if let Some(c) = &self.comment {
            s.push_str(&format!(" # {c}"));
        }
        s
    }

    pub fn payload_text(&self) -> String {
        let mut s = self.pfx.text();
        if let Some(ml) = self.max_len {
            s.push_str(&format!("-{ml}"));
        }
        s.push_str(&format!(" => {}", self.asn));
        s
    }
}

#[derive(Clone, Debug, PartialEq, Eq, Serialize, Deserialize)]
pub enum Op {
    /// Create a CA, give it a repository and a first parent.
    CreateCa {
        inst: usize, name: String,
        parent_inst: usize, parent: String, res: Res,
    },
    /// Add a further parent to an existing CA.
    AddParent {
        inst: usize, name: String,
        parent_inst: usize, parent: String, res: Res,
    },
    RemoveParent { inst: usize, name: String, parent: String },
    DeleteCa { inst: usize, name: String },
    ChildResources { inst: usize, parent: String, child: String, res: Res },
    ChildRemove { inst: usize, parent: String, child: String },
    ChildSuspend { inst: usize, parent: String, child: String, suspend: bool },
    /// The parent tells the child another name for (one of) its resource
    /// classes (issue 1133: imported delegated children).
    ChildMapClass { inst: usize, parent: String, child: String, name: String },
    Roa { inst: usize, ca: String, add: Vec<RoaSpec>, remove: Vec<RoaSpec> },
    Aspa {
        inst: usize, ca: String,
        add: Vec<(u32, Vec<u32>)>, remove: Vec<u32>,
    },
    AspaProviders {
        inst: usize, ca: String, customer: u32,
        added: Vec<u32>, removed: Vec<u32>,
    },
    Bgpsec {
        inst: usize, ca: String,
        /// (asn, csr index, corrupt signature)
        add: Vec<(u32, usize, bool)>,
        remove: Vec<(u32, usize)>,
    },
    KeyRollInit { inst: usize, ca: String },
    KeyRollActivate { inst: usize, ca: String },
    RefreshAll { inst: usize },
    RepublishAll { inst: usize, force: bool },
    RepoSyncAll { inst: usize },
    Snapshot { inst: usize },
    Advance { secs: i64 },
    Pump,
    Restart { inst: usize },
    /// The instance goes down (its host is unreachable) ...
    Partition { inst: usize },
    /// ... and comes back, started from its storage.
    Heal { inst: usize },
    /// The link between the instances is cut while both keep running ...
    NetCut,
    /// ... and restored.
    NetRestore,
    /// The trust anchor signer becomes unavailable (as when it is kept
    /// off-line): requests of the trust anchor's children pile up at the
    /// proxy and the children keep asking ...
    SignerOffline,
    /// ... until a signing session takes place (and the signer stays
    /// available from then on).
    SignerSession,
    /// The process of instance `inst` dies before the k-th storage or
    /// file-system mutation it makes during the next stretch of background
    /// work (its own tasks, or serving a request of the other instance);
    /// it is started again from its directory right away.
    CrashNext { inst: usize, k: u64 },
    /// The snapshot update task runs (on a quiet instance) with its k-th
    /// storage mutation failing with an I/O error.
    SnapshotFail { inst: usize, k: u64 },
    /// Explicit RRDP session reset.
    RrdpSessionReset { inst: usize },
    /// The publication server operator removes the CA's publisher.
    RemovePublisher { inst: usize, ca: String },
    /// The publication server operator adds the CA's publisher (again),
    /// from the CA's publisher request: same handle, same identity.
    ReAddPublisher { inst: usize, ca: String },
    /// Restart with another RRDP retention configuration.
    RestartRrdp {
        inst: usize, min_nr: usize, max_nr: usize, min_seconds: u32,
        max_seconds: u32, interval: u32,
    },
}

impl Op {
    /// The instances an operation needs to be up.
    pub fn instances(&self) -> Vec<usize> {
        match self {
            Op::CreateCa { inst, parent_inst, .. }
            | Op::AddParent { inst, parent_inst, .. } => {
                // The repository lives on instance 0.
                vec![*inst, *parent_inst, 0]
            }
            Op::RemoveParent { inst, .. } | Op::DeleteCa { inst, .. }
            | Op::ChildResources { inst, .. } | Op::ChildRemove { inst, .. }
            | Op::ChildSuspend { inst, .. } | Op::ChildMapClass { inst, .. }
            | Op::Roa { inst, .. } | Op::Aspa { inst, .. }
            | Op::AspaProviders { inst, .. } | Op::Bgpsec { inst, .. }
            | Op::KeyRollInit { inst, .. } | Op::KeyRollActivate { inst, .. }
            | Op::RefreshAll { inst } | Op::RepublishAll { inst, .. }
            | Op::RepoSyncAll { inst } | Op::Snapshot { inst }
            | Op::SnapshotFail { inst, .. }
            | Op::Restart { inst } | Op::RrdpSessionReset { inst }
            | Op::RemovePublisher { inst, .. } | Op::ReAddPublisher { inst, .. }
            | Op::RestartRrdp { inst, .. }
            | Op::Partition { inst } => vec![*inst],
            Op::SignerOffline | Op::SignerSession => vec![0],
            Op::Heal { .. } | Op::Advance { .. } | Op::Pump
            | Op::NetCut | Op::NetRestore | Op::CrashNext { .. } => vec![],
        }
    }

    pub fn kind(&self) -> &'static str {
        match self {
            Op::CreateCa { .. } => "create_ca",
            Op::AddParent { .. } => "add_parent",
            Op::RemoveParent { .. } => "remove_parent",
            Op::DeleteCa { .. } => "delete_ca",
            Op::ChildResources { .. } => "child_resources",
            Op::ChildRemove { .. } => "child_remove",
            Op::ChildSuspend { .. } => "child_suspend",
            Op::ChildMapClass { .. } => "child_map_class",
            Op::Roa { .. } => "roa",
            Op::Aspa { .. } => "aspa",
            Op::AspaProviders { .. } => "aspa_providers",
            Op::Bgpsec { .. } => "bgpsec",
            Op::KeyRollInit { .. } => "keyroll_init",
            Op::KeyRollActivate { .. } => "keyroll_activate",
            Op::RefreshAll { .. } => "refresh_all",
            Op::RepublishAll { .. } => "republish_all",
            Op::RepoSyncAll { .. } => "repo_sync_all",
            Op::Snapshot { .. } => "snapshot",
            Op::SnapshotFail { .. } => "snapshot_fail",
            Op::Advance { .. } => "advance",
            Op::Pump => "pump",
            Op::Restart { .. } => "restart",
            Op::Partition { .. } => "partition",
            Op::Heal { .. } => "heal",
            Op::NetCut => "net_cut",
            Op::NetRestore => "net_restore",
            Op::CrashNext { .. } => "crash_next",
            Op::SignerOffline => "signer_offline",
            Op::SignerSession => "signer_session",
            Op::RrdpSessionReset { .. } => "rrdp_session_reset",
            Op::RemovePublisher { .. } => "remove_publisher",
            Op::ReAddPublisher { .. } => "readd_publisher",
            Op::RestartRrdp { .. } => "restart_rrdp",
        }
    }
}

//------------ Generation ----------------------------------------------------

#[derive(Clone, Debug)]
pub struct GenCfg {
    pub max_cas: usize,
    pub max_depth: usize,
    /// Share (in 1/100) of deliberately invalid requests.
    pub invalid_pct: u64,
    pub allow_restart: bool,
    pub allow_delete: bool,
    pub allow_keyroll: bool,
    pub allow_suspend: bool,
    pub allow_second_parent: bool,
    pub allow_ta_children: bool,
    pub allow_bgpsec: bool,
    /// Largest single clock advance in seconds.
    pub max_advance: i64,
    /// Weight of entitlement-changing operations (C02 bias).
    pub w_entitlement: u64,
    /// Weight of ROA/ASPA/BGPsec configuration operations.
    pub w_config: u64,
    /// Weight of life-ending operations (C03 bias).
    pub w_removal: u64,
    pub w_keyroll: u64,
    pub w_maintenance: u64,
    pub w_clock: u64,
    /// Weight of RRDP session resets and retention changes (C11).
    pub w_rrdp: u64,
    /// Weight of publisher removal at the server (C19).
    pub w_status: u64,
    /// Share (in 1/100 of the entitlement operations) of class name
    /// mappings.
    pub w_class_map: u64,
    /// Weight of taking the second instance down and up again.
    pub w_partition: u64,
    /// Weight of the trust anchor signer going off-line / a signing
    /// session taking place.
    pub w_signer: u64,
    /// Weight of a process crash during the next background work.
    pub w_crash: u64,
    /// A third of the snapshot updates run with a failing write.
    pub snapshot_faults: bool,
    pub pump_pct: u64,
}

impl Default for GenCfg {
    fn default() -> Self {
        GenCfg {
            max_cas: 5,
            max_depth: 3,
            invalid_pct: 10,
            allow_restart: true,
            allow_delete: true,
            allow_keyroll: true,
            allow_suspend: true,
            allow_second_parent: true,
            allow_ta_children: true,
            allow_bgpsec: true,
            max_advance: 12 * 3600,
            w_entitlement: 15,
            w_config: 40,
            w_removal: 6,
            w_keyroll: 8,
            w_maintenance: 8,
            w_clock: 8,
            w_rrdp: 0,
            w_status: 0,
            w_class_map: 0,
            w_partition: 0,
            w_signer: 0,
            w_crash: 0,
            snapshot_faults: false,
            pump_pct: 55,
        }
    }
}

/// Draws an RRDP retention configuration:
/// (min_nr, max_nr, min_seconds, max_seconds, interval).
pub fn draw_rrdp_retention(rng: &mut Rng) -> (usize, usize, u32, u32, u32) {
    let max_nr = *rng.pick(&[1usize, 2, 3, 5, 8, 50]);
    let min_nr = std::cmp::min(*rng.pick(&[0usize, 1, 2, 5]), max_nr);
    let min_seconds = *rng.pick(&[0u32, 0, 30, 1200]);
    let max_seconds = *rng.pick(&[1u32, 600, 7200, 86400]);
    let interval = *rng.pick(&[0u32, 0, 0, 60, 300]);
    (min_nr, max_nr, min_seconds, max_seconds, interval)
}

pub fn random_res(rng: &mut Rng, within: &Res, allow_empty: bool) -> Res {
    loop {
        let density = 1 + rng.below(3);
        let mut res = Res::NONE;
        for k in 0..V4_BLOCKS {
            if within.v4 & (1 << k) != 0 && rng.below(4) < density {
                res.v4 |= 1 << k;
            }
        }
        for k in 0..V6_BLOCKS {
            if within.v6 & (1 << k) != 0 && rng.below(4) < density {
                res.v6 |= 1 << k;
            }
        }
        for k in 0..AS_BLOCKS {
            if within.asn & (1 << k) != 0 && rng.below(4) < density {
                res.asn |= 1 << k;
            }
        }
        if !res.is_empty() || allow_empty || within.is_empty() {
            return res
        }
    }
}

/// Picks a prefix: inside a held block, spanning two blocks, or outside.
pub fn random_pfx(rng: &mut Rng, held: &Res, want_held: bool) -> Pfx {
    let v4 = rng.chance(3, 4);
    if v4 {
        let blocks: Vec<u32> = (0..V4_BLOCKS).filter(|k| {
            (held.v4 & (1 << k) != 0) == want_held
        }).collect();
        let k = match rng.pick_opt(&blocks) {
            Some(k) => *k,
            None => rng.below(V4_BLOCKS as u64) as u32,
        };
        match rng.below(10) {
            0 => Pfx::v4(10, k as u8, 0, 0, 16),
            1 => Pfx::v4(10, (k & !1) as u8, 0, 0, 15),
            2 => Pfx::v4(10, k as u8, rng.below(4) as u8 * 64, 0, 18),
            _ => Pfx::v4(10, k as u8, rng.below(3) as u8, 0, 24),
        }
    }
    else {
        let blocks: Vec<u32> = (0..V6_BLOCKS).filter(|k| {
            (held.v6 & (1 << k) != 0) == want_held
        }).collect();
        let k = match rng.pick_opt(&blocks) {
            Some(k) => *k,
            None => rng.below(V6_BLOCKS as u64) as u32,
        };
        match rng.below(4) {
            0 => Pfx::v6([0x2001, 0xdb8, k as u16, 0, 0, 0, 0, 0], 48),
            1 => Pfx::v6(
                [0x2001, 0xdb8, (k & !1) as u16, 0, 0, 0, 0, 0], 47
            ),
            _ => Pfx::v6(
                [0x2001, 0xdb8, k as u16, rng.below(3) as u16, 0, 0, 0, 0], 64
            ),
        }
    }
}

pub fn random_asn(rng: &mut Rng, held: &Res, want_held: bool) -> u32 {
    let blocks: Vec<u32> = (0..AS_BLOCKS).filter(|k| {
        (held.asn & (1 << k) != 0) == want_held
    }).collect();
    match rng.pick_opt(&blocks) {
        Some(k) => 65000 + 10 * k + rng.below(3) as u32,
        None => 65000 + rng.below(80) as u32,
    }
}

fn random_roa(rng: &mut Rng, held: &Res, invalid: bool) -> RoaSpec {
    let want_held = !(invalid && rng.chance(1, 2));
    let pfx = random_pfx(rng, held, want_held);
    let max_len = match rng.below(8) {
        0 | 1 | 2 => None,
        3 => Some(pfx.len),
        4 => Some(pfx.len + 1),
        5 => Some(std::cmp::min(pfx.len + 2, pfx.family_len())),
        6 => {
            if invalid { Some(pfx.len - 1) } else { Some(pfx.len) }
        }
        _ => {
            if invalid { Some(pfx.family_len() + 1) }
            else { Some(pfx.family_len()) }
        }
    };
    let asn = match rng.below(12) {
        0 => 0,
        _ => 64500 + rng.below(6) as u32,
    };
    let comment = match rng.below(6) {
        0 => Some("primary".to_string()),
        1 => Some("backup".to_string()),
        _ => None,
    };
    RoaSpec { asn, pfx, max_len, comment }
}

/// What the generator needs to know about the actual state of a CA.
pub struct CaView {
    pub held: Res,
    pub depth: usize,
}

pub struct GenCtx<'a> {
    pub model: &'a Model,
    pub cfg: &'a GenCfg,
    pub n_insts: usize,
    /// Held resources (lattice) and depth per CA key "i/name".
    pub views: &'a std::collections::BTreeMap<String, CaView>,
    pub bgpsec_csrs: usize,
    pub disk: &'a [bool],
    /// Names that were used before and must not be reused.
    pub retired: &'a std::collections::BTreeSet<String>,
    /// Instances that are down.
    pub down: &'a [usize],
    /// The link between the instances is cut.
    pub cut: bool,
    /// The trust anchor signer is off-line.
    pub signer_offline: bool,
}

pub fn generate(rng: &mut Rng, ctx: &GenCtx) -> Op {
    let cfg = ctx.cfg;
    let model = ctx.model;
    let cas: Vec<&crate::model::MCa> = model.cas.values().collect();
    let user_cas: Vec<&crate::model::MCa> = cas.iter().copied()
        .filter(|c| c.name != "testbed").collect();
    let invalid = rng.below(100) < cfg.invalid_pct;

    if user_cas.is_empty() || (user_cas.len() < 2 && rng.chance(1, 2)) {
        return gen_create(rng, ctx)
    }

    let total = cfg.w_entitlement + cfg.w_config + cfg.w_removal
        + cfg.w_keyroll + cfg.w_maintenance + cfg.w_clock + cfg.w_rrdp
        + cfg.w_status + cfg.w_partition + cfg.w_signer + cfg.w_crash + 10;
    let mut pick = rng.below(total);

    if pick < cfg.w_crash {
        let inst = rng.usize(ctx.n_insts);
        // Half of the crashes early in the background work that follows,
        // the rest anywhere in it.
        let k = if rng.chance(1, 2) { 1 + rng.below(8) }
            else { 1 + rng.below(80) };
        return Op::CrashNext { inst, k }
    }
    pick -= cfg.w_crash;

    if pick < cfg.w_signer {
        return if ctx.signer_offline { Op::SignerSession }
        else { Op::SignerOffline }
    }
    pick -= cfg.w_signer;
    // Do not keep the signer away for too long.
    if cfg.w_signer > 0 && ctx.signer_offline && rng.chance(1, 8) {
        return Op::SignerSession
    }

    if pick < cfg.w_partition {
        return if ctx.cut {
            Op::NetRestore
        } else if ctx.down.contains(&1) {
            Op::Heal { inst: 1 }
        } else if rng.chance(1, 2) {
            Op::NetCut
        } else {
            Op::Partition { inst: 1 }
        }
    }
    pick -= cfg.w_partition;
    // While the second instance is away, heal it sooner rather than later.
    if cfg.w_partition > 0 && ctx.down.contains(&1) && rng.chance(1, 4) {
        return Op::Heal { inst: 1 }
    }
    if cfg.w_partition > 0 && ctx.cut && rng.chance(1, 6) {
        return Op::NetRestore
    }

    if pick < cfg.w_status {
        let ca = *rng.pick(&user_cas);
        // Adding a publisher that is still there is refused (a no-op).
        return if rng.chance(2, 5) {
            Op::ReAddPublisher { inst: ca.inst, ca: ca.name.clone() }
        } else {
            Op::RemovePublisher { inst: ca.inst, ca: ca.name.clone() }
        }
    }
    pick -= cfg.w_status;

    if pick < cfg.w_rrdp {
        return if rng.chance(1, 2) || !ctx.disk[0] {
            Op::RrdpSessionReset { inst: 0 }
        }
        else {
            let (min_nr, max_nr, min_seconds, max_seconds, interval)
                = draw_rrdp_retention(rng);
            Op::RestartRrdp {
                inst: 0, min_nr, max_nr, min_seconds, max_seconds, interval,
            }
        }
    }
    pick -= cfg.w_rrdp;

    // Configuration changes.
    if pick < cfg.w_config {
        let ca = *rng.pick(&user_cas);
        let held = ctx.views.get(&crate::model::ca_key(ca.inst, &ca.name))
            .map(|v| v.held).unwrap_or(Res::NONE);
        return match rng.below(10) {
            0..=5 => gen_roa(rng, ca, &held, invalid),
            6..=7 => gen_aspa(rng, ca, &held, invalid),
            _ => {
                if cfg.allow_bgpsec {
                    gen_bgpsec(rng, ca, &held, invalid, ctx.bgpsec_csrs)
                } else {
                    gen_roa(rng, ca, &held, invalid)
                }
            }
        }
    }
    pick -= cfg.w_config;

    // Entitlement changes.
    if pick < cfg.w_entitlement {
        // Pick a (parent, child) pair.
        let mut pairs = Vec::new();
        for ca in &cas {
            for (child, _) in &ca.children {
                pairs.push((ca.inst, ca.name.clone(), child.clone()));
            }
        }
        // A suspended child is where entitlement changes and the
        // certificate kept aside can drift apart: stay on it for a while
        // (change its entitlement, then wake it up).
        let suspended: Vec<(usize, String, String)> = pairs.iter()
            .filter(|(i, p, c)| {
                model.child_at(*i, p, c).map(|c| c.suspended).unwrap_or(false)
            }).cloned().collect();
        if !suspended.is_empty() && cfg.allow_suspend && rng.chance(1, 2) {
            let (inst, parent, child) = rng.pick(&suspended).clone();
            let held = ctx.views.get(&crate::model::ca_key(inst, &parent))
                .map(|v| v.held).unwrap_or(Res::NONE);
            let cur = model.child_at(inst, &parent, &child)
                .map(|c| c.ent).unwrap_or(Res::NONE);
            return match rng.below(4) {
                0 => Op::ChildResources {
                    inst, parent, child, res: random_res(rng, &cur, false),
                },
                1 => Op::ChildResources {
                    inst, parent, child,
                    res: cur.union(&random_res(rng, &held, true)),
                },
                _ => Op::ChildSuspend { inst, parent, child, suspend: false },
            }
        }
        if cfg.w_class_map > 0 {
            // Only possible while the child has not received a certificate
            // from this parent: right after it was added.
            let fresh: Vec<(usize, String, String)> = pairs.iter()
                .filter(|(_, _, child)| {
                    ctx.views.iter().any(|(key, view)| {
                        key.ends_with(&format!("/{child}"))
                            && view.held.is_empty()
                    })
                }).cloned().collect();
            if !fresh.is_empty() && rng.below(100) < cfg.w_class_map * 4 {
                let (inst, parent, child) = rng.pick(&fresh).clone();
                let name = format!("m{}", rng.below(3));
                return Op::ChildMapClass { inst, parent, child, name }
            }
        }
        if let Some((inst, parent, child)) = rng.pick_opt(&pairs).cloned() {
            let held = ctx.views.get(&crate::model::ca_key(inst, &parent))
                .map(|v| v.held).unwrap_or(Res::NONE);
            let cur = model.child_at(inst, &parent, &child)
                .map(|c| c.ent).unwrap_or(Res::NONE);
            let res = match rng.below(8) {
                0 => Res::NONE,                               // to nothing
                1 => held,                                    // everything
                2 => random_res(rng, &cur, true),             // shrink
                3 => cur.union(&random_res(rng, &held, true)), // grow
                4 => {
                    if invalid { Res::ALL } else { random_res(rng, &held, false) }
                }
                _ => random_res(rng, &held, false),
            };
            return Op::ChildResources { inst, parent, child, res }
        }
        return gen_create(rng, ctx)
    }
    pick -= cfg.w_entitlement;

    // Removals.
    if pick < cfg.w_removal {
        let mut pairs = Vec::new();
        for ca in &cas {
            for (child, _) in &ca.children {
                pairs.push((ca.inst, ca.name.clone(), child.clone()));
            }
        }
        return match rng.below(6) {
            0 | 1 if cfg.allow_suspend => {
                match rng.pick_opt(&pairs).cloned() {
                    Some((inst, parent, child)) => {
                        let suspended = model.child_at(inst, &parent, &child)
                            .map(|c| c.suspended).unwrap_or(false);
                        Op::ChildSuspend {
                            inst, parent, child,
                            suspend: if invalid { suspended } else { !suspended },
                        }
                    }
                    None => gen_create(rng, ctx)
                }
            }
            2 => {
                match rng.pick_opt(&pairs).cloned() {
                    Some((inst, parent, child)) => {
                        Op::ChildRemove { inst, parent, child }
                    }
                    None => gen_create(rng, ctx)
                }
            }
            3 if cfg.allow_delete => {
                let ca = *rng.pick(&user_cas);
                Op::DeleteCa { inst: ca.inst, name: ca.name.clone() }
            }
            4 => {
                let with_parents: Vec<_> = user_cas.iter().filter(|c| {
                    c.parents.len() > if invalid { 0 } else { 1 }
                }).collect();
                match rng.pick_opt(&with_parents) {
                    Some(ca) => {
                        let parents: Vec<&String> = ca.parents.keys().collect();
                        Op::RemoveParent {
                            inst: ca.inst, name: ca.name.clone(),
                            parent: (*rng.pick(&parents)).clone(),
                        }
                    }
                    None => gen_create(rng, ctx)
                }
            }
            _ => {
                // Remove configuration.
                let ca = *rng.pick(&user_cas);
                let keys: Vec<&RoaKey> = ca.roas.keys().collect();
                if keys.is_empty() {
                    let held = ctx.views
                        .get(&crate::model::ca_key(ca.inst, &ca.name))
                        .map(|v| v.held).unwrap_or(Res::NONE);
                    gen_roa(rng, ca, &held, false)
                }
                else {
                    let n = 1 + rng.usize(std::cmp::min(3, keys.len()));
                    let mut remove = Vec::new();
                    for _ in 0..n {
                        let key = *rng.pick(&keys);
                        let spec = spec_from_key(key, rng.chance(1, 2));
                        if !remove.contains(&spec) {
                            remove.push(spec);
                        }
                    }
                    Op::Roa {
                        inst: ca.inst, ca: ca.name.clone(),
                        add: vec![], remove,
                    }
                }
            }
        }
    }
    pick -= cfg.w_removal;

    if pick < cfg.w_keyroll {
        if !cfg.allow_keyroll {
            return Op::Pump
        }
        let mut ca = *rng.pick(&user_cas);
        if cfg.w_signer > 0 && rng.chance(1, 2) {
            // Rolls directly under the trust anchor, whose answers wait for
            // the signer.
            let under_ta: Vec<&crate::model::MCa> = cas.iter().copied()
                .filter(|c| {
                    c.inst == 0
                        && c.parents.values().any(|p| p.parent_ca == "ta")
                }).collect();
            if let Some(pick) = rng.pick_opt(&under_ta) {
                ca = *pick;
            }
        }
        return if rng.chance(1, 2) {
            Op::KeyRollInit { inst: ca.inst, ca: ca.name.clone() }
        } else {
            Op::KeyRollActivate { inst: ca.inst, ca: ca.name.clone() }
        }
    }
    pick -= cfg.w_keyroll;

    if pick < cfg.w_maintenance {
        let inst = rng.usize(ctx.n_insts);
        return match rng.below(7) {
            0 | 1 => Op::RefreshAll { inst },
            2 => Op::RepublishAll { inst, force: rng.chance(1, 2) },
            3 => Op::RepoSyncAll { inst },
            4 | 6 => {
                if cfg.snapshot_faults && rng.chance(1, 3) {
                    Op::SnapshotFail { inst, k: 1 + rng.below(10) }
                } else {
                    Op::Snapshot { inst }
                }
            }
            _ => {
                if cfg.allow_restart && ctx.disk[inst] {
                    Op::Restart { inst }
                } else {
                    Op::RefreshAll { inst }
                }
            }
        }
    }
    pick -= cfg.w_maintenance;

    if pick < cfg.w_clock {
        let secs = match rng.below(5) {
            0 => 1 + rng.below(600) as i64,
            1 => 3600,
            2 => 3600 + rng.below(7200) as i64,
            _ => 1 + rng.below(cfg.max_advance as u64) as i64,
        };
        return Op::Advance { secs }
    }

    // Remaining weight: structure.
    if user_cas.len() < cfg.max_cas && rng.chance(2, 3) {
        gen_create(rng, ctx)
    }
    else if cfg.allow_second_parent && rng.chance(1, 2) {
        gen_add_parent(rng, ctx)
    }
    else {
        Op::Pump
    }
}

fn spec_from_key(key: &RoaKey, explicit: bool) -> RoaSpec {
    // Parse back the canonical prefix text.
    let (addr, len) = key.prefix.split_once('/').unwrap();
    let len: u8 = len.parse().unwrap();
    let pfx = if addr.contains(':') {
        let a: std::net::Ipv6Addr = addr.parse().unwrap();
        Pfx { v4: false, addr: u128::from(a), len }
    } else {
        let a: std::net::Ipv4Addr = addr.parse().unwrap();
        Pfx { v4: true, addr: u32::from(a) as u128, len }
    };
    RoaSpec {
        asn: key.asn,
        pfx,
        max_len: if explicit || key.max_len != len {
            Some(key.max_len)
        } else {
            None
        },
        comment: None,
    }
}

fn gen_roa(
    rng: &mut Rng, ca: &crate::model::MCa, held: &Res, invalid: bool,
) -> Op {
    let n_add = 1 + rng.usize(4);
    let mut add: Vec<RoaSpec> = Vec::new();
    let bad_pos = rng.usize(n_add);
    for i in 0..n_add {
        let mut spec = random_roa(rng, held, invalid && i == bad_pos);
        if invalid && i == bad_pos && rng.chance(1, 3) {
            // Duplicate of an existing or earlier entry (same comment).
            if let Some(prev) = add.last().cloned() {
                spec = prev;
            }
            else if let Some((key, comment)) = ca.roas.iter().next() {
                spec = spec_from_key(key, false);
                spec.comment = comment.clone();
            }
        }
        add.push(spec);
    }
    let mut remove = Vec::new();
    if rng.chance(1, 3) {
        let keys: Vec<&RoaKey> = ca.roas.keys().collect();
        if let Some(key) = rng.pick_opt(&keys) {
            remove.push(spec_from_key(key, rng.chance(1, 2)));
        }
    }
    if invalid && rng.chance(1, 4) {
        // Removal of something that is not there.
        remove.push(random_roa(rng, held, false));
    }
    Op::Roa { inst: ca.inst, ca: ca.name.clone(), add, remove }
}

fn gen_aspa(
    rng: &mut Rng, ca: &crate::model::MCa, held: &Res, invalid: bool,
) -> Op {
    let existing: Vec<u32> = ca.aspas.keys().copied().collect();
    if !existing.is_empty() && rng.chance(1, 3) {
        let customer = if invalid && rng.chance(1, 2) {
            random_asn(rng, held, true) + 5
        } else {
            *rng.pick(&existing)
        };
        let mut added = Vec::new();
        let mut removed = Vec::new();
        for _ in 0..rng.usize(3) {
            added.push(64600 + rng.below(6) as u32);
        }
        if invalid && rng.chance(1, 2) {
            added.push(customer);
        }
        if let Some(provs) = ca.aspas.get(&customer) {
            let provs: Vec<u32> = provs.iter().copied().collect();
            for _ in 0..rng.usize(3) {
                if let Some(p) = rng.pick_opt(&provs) {
                    removed.push(*p);
                }
            }
        }
        return Op::AspaProviders {
            inst: ca.inst, ca: ca.name.clone(), customer, added, removed,
        }
    }
    let mut add = Vec::new();
    let mut remove = Vec::new();
    let n = 1 + rng.usize(2);
    for i in 0..n {
        let bad = invalid && i == 0;
        let want = !(bad && rng.chance(1, 3));
        let customer = random_asn(rng, held, want);
        let mut providers: Vec<u32> = Vec::new();
        let np = if bad && rng.chance(1, 4) { 0 } else { 1 + rng.usize(3) };
        for _ in 0..np {
            providers.push(64600 + rng.below(8) as u32);
        }
        if bad {
            match rng.below(3) {
                0 => providers.push(customer),
                1 => {
                    if let Some(p) = providers.first().copied() {
                        providers.push(p);
                    }
                }
                _ => { }
            }
        }
        else {
            providers.sort();
            providers.dedup();
        }
        add.push((customer, providers));
    }
    if rng.chance(1, 4) {
        if let Some(c) = rng.pick_opt(&existing) {
            remove.push(*c);
        }
        else if invalid {
            remove.push(random_asn(rng, held, true));
        }
    }
    Op::Aspa { inst: ca.inst, ca: ca.name.clone(), add, remove }
}

fn gen_bgpsec(
    rng: &mut Rng, ca: &crate::model::MCa, held: &Res, invalid: bool,
    csrs: usize,
) -> Op {
    let mut add = Vec::new();
    let mut remove = Vec::new();
    let existing: Vec<(u32, usize)> = ca.bgpsec.iter().copied().collect();
    if !existing.is_empty() && rng.chance(1, 3) {
        remove.push(*rng.pick(&existing));
    }
    else if invalid && rng.chance(1, 3) {
        remove.push((random_asn(rng, held, true), rng.usize(csrs)));
    }
    if remove.is_empty() || rng.chance(1, 2) {
        let want = !(invalid && rng.chance(1, 2));
        let asn = random_asn(rng, held, want);
        let corrupt = invalid && rng.chance(1, 2);
        add.push((asn, rng.usize(csrs), corrupt));
    }
    Op::Bgpsec { inst: ca.inst, ca: ca.name.clone(), add, remove }
}

fn free_name(ctx: &GenCtx, inst: usize) -> String {
    for i in 0.. {
        let name = format!("c{i}");
        // Unique over all instances: the name is also the publisher handle
        // and the directory at the (shared) repository.
        let _ = inst;
        if !ctx.model.cas.values().any(|c| c.name == name)
            && !ctx.retired.contains(&name)
        {
            return name
        }
    }
    unreachable!()
}

fn gen_create(rng: &mut Rng, ctx: &GenCtx) -> Op {
    let inst = rng.usize(ctx.n_insts);
    let name = free_name(ctx, inst);
    let (parent_inst, parent, within) = pick_parent(rng, ctx, None);
    let res = if rng.below(100) < ctx.cfg.invalid_pct {
        match rng.below(2) {
            0 => Res::NONE,
            _ => Res::ALL,
        }
    } else {
        random_res(rng, &within, false)
    };
    Op::CreateCa { inst, name, parent_inst, parent, res }
}

fn gen_add_parent(rng: &mut Rng, ctx: &GenCtx) -> Op {
    let user_cas: Vec<&crate::model::MCa> = ctx.model.cas.values()
        .filter(|c| c.name != "testbed").collect();
    let Some(ca) = rng.pick_opt(&user_cas) else {
        return gen_create(rng, ctx)
    };
    let (parent_inst, parent, within) = pick_parent(
        rng, ctx, Some((ca.inst, ca.name.as_str()))
    );
    let res = random_res(rng, &within, false);
    Op::AddParent {
        inst: ca.inst, name: ca.name.clone(), parent_inst, parent, res,
    }
}

/// Picks a parent that is not a descendant of `for_ca`.
fn pick_parent(
    rng: &mut Rng, ctx: &GenCtx, for_ca: Option<(usize, &str)>,
) -> (usize, String, Res) {
    let mut candidates: Vec<(usize, String, Res)> = Vec::new();
    let banned: Vec<(usize, String)> = match for_ca {
        Some((i, n)) => ctx.model.descendants(i, n),
        None => Vec::new(),
    };
    for ca in ctx.model.cas.values() {
        if banned.contains(&(ca.inst, ca.name.clone())) {
            continue
        }
        if let Some((i, n)) = for_ca {
            if let Some(me) = ctx.model.ca(i, n) {
                if me.parents.values().any(|p| {
                    p.parent_inst == ca.inst && p.parent_ca == ca.name
                }) {
                    continue
                }
            }
        }
        let key = crate::model::ca_key(ca.inst, &ca.name);
        let Some(view) = ctx.views.get(&key) else { continue };
        if view.depth >= ctx.cfg.max_depth || view.held.is_empty() {
            continue
        }
        candidates.push((ca.inst, ca.name.clone(), view.held));
    }
    if ctx.cfg.allow_ta_children && rng.chance(1, 5) {
        let already = for_ca.and_then(|(i, n)| ctx.model.ca(i, n)).map(|me| {
            me.parents.values().any(|p| p.parent_ca == "ta")
        }).unwrap_or(false);
        if !already {
            return (0, "ta".to_string(), Res::ALL)
        }
    }
    match rng.pick_opt(&candidates) {
        Some(c) => c.clone(),
        None => (0, "testbed".to_string(), Res::ALL),
    }
}
