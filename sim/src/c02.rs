//! C02: delegation follows entitlements, never over-claims, converges and is
//! idempotent.

use std::collections::BTreeMap;
use rpki::repository::resources::ResourceSet;
use crate::history::Runner;
use crate::hooks;
use crate::model::Res;
use crate::objsets;
use crate::rp::RpResult;
use crate::sim::handle;
use crate::util::block_on;

#[derive(Default)]
pub struct State {
    pub last_entitlement_change: usize,
    /// (issuer CA, subject key id) -> (serial, resources) last seen in the
    /// issuer's stored object set.
    pub issued: BTreeMap<(String, String), (String, ResourceSet)>,
    pub certs_checked: u64,
    pub first_appearances: u64,
    pub shrinks_seen: u64,
    /// (parent, child) of an unsuspend operation that just completed.
    pub just_unsuspended: Option<(String, String)>,
}

/// Instant invariant over the stored object set of every CA: what the CA is
/// about to publish (and after the next repository sync has published).
pub fn instant(r: &mut Runner) {
    let cas: Vec<(usize, String)> = r.model.cas.values()
        .map(|c| (c.inst, c.name.clone())).collect();
    let jail = r.world.inst(0).cfg.rsync_jail();
    for (inst, name) in cas {
        if !r.world.inst(inst).is_up() {
            continue
        }
        let classes = hooks::with_faults_suspended(|| {
            objsets::read(r.world.inst(inst).rt(), &name)
        });
        for class in &classes {
            for set in &class.sets {
                for product in set.products.values() {
                    let Some((cert, res)) = objsets::as_ca_cert(product) else {
                        continue
                    };
                    r.ext.c02.certs_checked += 1;
                    // Never over-claiming.
                    if !set.signing_resources.contains(&res) {
                        r.violation(
                            "C02", "overclaim",
                            format!(
                                "CA {name}: child certificate {} claims {} \
                                 which is outside the issuing key's \
                                 certificate ({})",
                                product.name, res, set.signing_resources
                            )
                        );
                    }
                    if res.is_empty() {
                        r.violation(
                            "C02", "empty_certificate",
                            format!(
                                "CA {name}: child certificate {} carries no \
                                 resources", product.name
                            )
                        );
                    }
                    // First appearance of this serial.
                    let subject = cert.subject_key_identifier().to_string();
                    let key = (name.clone(), subject.clone());
                    let prev = r.ext.c02.issued.get(&key).cloned();
                    let is_new = prev.as_ref()
                        .map(|(serial, _)| serial != &product.serial)
                        .unwrap_or(true);
                    if !is_new {
                        continue
                    }
                    r.ext.c02.first_appearances += 1;
                    // Which child is this?
                    let child: Option<String> = cert.ca_repository()
                        .map(|uri| uri.to_string())
                        .and_then(|uri| {
                            uri.strip_prefix(jail.as_str()).and_then(|rest| {
                                rest.split('/').next().map(|s| s.to_string())
                            })
                        });
                    if let Some(child) = child {
                        if let Some(link) = r.model.child_at(inst, &name, &child) {
                            let ent = link.ent.to_set();
                            let exact = ent.intersection(&set.signing_resources);
                            let ok_exact = exact == res;
                            // A re-issue not asked for by the child (issuer
                            // shrank, issuer rolled its key, child was
                            // unsuspended) carries what the previous
                            // certificate and the issuer's still share.
                            // Waking up a suspended child is not such a
                            // re-issue: the certificate kept aside may only
                            // come back if the entitlement still covers it.
                            let woken = r.ext.c02.just_unsuspended.as_ref()
                                == Some(&(name.clone(), child.clone()));
                            let ok_reissue = !woken
                                && prev.as_ref().map(|(_, old)| {
                                    old.intersection(&set.signing_resources)
                                        == res
                                }).unwrap_or(false);
                            if let Some((_, old)) = &prev {
                                if old != &res {
                                    r.ext.c02.shrinks_seen += 1;
                                }
                            }
                            // A child that was suspended gets back the
                            // certificate it had (possibly shrunk while it
                            // was away); it asks for the rest itself, which
                            // the convergence check covers.
                            let ok_unsuspend = link.was_suspended
                                && exact.contains(&res);
                            if !ok_exact && !ok_reissue && !ok_unsuspend {
                                r.violation(
                                    "C02", "issued_not_exact",
                                    format!(
                                        "CA {name} issued {} to child {child} \
                                         with {res}; entitlement is {ent}, \
                                         issuing key holds {}, so exactly {exact} \
                                         was due (previous certificate: {:?})",
                                        product.name, set.signing_resources,
                                        prev.as_ref().map(|p| p.1.to_string())
                                    )
                                );
                            }
                        }
                    }
                    r.ext.c02.issued.insert(key, (product.serial.clone(), res));
                }
            }
        }
    }
    r.ext.c02.just_unsuspended = None;
}

pub fn after_task(_r: &mut Runner) { }

/// Called by the runner when an unsuspend operation has completed; the
/// instant check that follows looks at what it re-issued.
pub fn note_unsuspended(r: &mut Runner, parent: &str, child: &str) {
    r.ext.c02.just_unsuspended = Some((parent.to_string(), child.to_string()));
}

pub fn at_caught_up(_r: &mut Runner, _repo_inst: usize, _rpres: &RpResult) { }

/// Brings every key roll to an end and every CA in sync with its parents.
///
/// Returns the number of rounds needed, or None if it did not settle.
pub fn settle(r: &mut Runner, max_rounds: usize) -> Option<usize> {
    let mut last_digest = String::new();
    for round in 0..max_rounds {
        if std::env::var("VERIF_KRILL_LOG").is_ok() { eprintln!("== settle round {round}"); }
        // Refresh everything and let it play out.
        for idx in 0..r.world.insts.len() {
            if r.world.inst(idx).is_up() {
                r.world.inst(idx).enter();
                let _ = block_on(r.world.inst(idx).mgr().cas_refresh_all());
            }
        }
        if r.exec_pump() != "caught_up" {
            return None
        }
        // Anything still rolling or requesting?
        let mut pending = false;
        let cas: Vec<(usize, String)> = r.model.cas.values()
            .map(|c| (c.inst, c.name.clone())).collect();
        for (inst, name) in &cas {
            for class in r.class_infos(*inst, name) {
                if !r.class_live(*inst, name, &class.name_space, 0) {
                    continue
                }
                match class.state.as_str() {
                    "active" => { }
                    "roll_new" => {
                        pending = true;
                        r.world.inst(*inst).enter();
                        let _ = block_on(
                            r.world.inst(*inst).mgr().ca_keyroll_activate(
                                handle(name), crate::world::ADMIN
                            )
                        );
                        crate::oracles::after_op(r);
                    }
                    _ => { pending = true; }
                }
            }
            if has_open_requests(r, *inst, name) {
                pending = true;
            }
        }
        // Settled means: nothing pending and a further full round of
        // synchronisations did not change any observable state (a parent
        // may have gained a class after its child last asked).
        let digest = settle_digest(r);
        if !pending && digest == last_digest {
            return Some(round + 1)
        }
        last_digest = digest;
    }
    None
}

/// Observable state for the fix-point test: certificates held and published
/// content, but not command counters (a refresh that finds nothing to do
/// adds no command anyway; idempotence is judged separately).
fn settle_digest(r: &Runner) -> String {
    let mut text = String::new();
    for ca in r.model.cas.values() {
        for class in r.class_infos(ca.inst, &ca.name) {
            text.push_str(&format!(
                "{}:{}:{}:{:?}:{:?};", ca.name, class.rcn, class.state,
                class.key_ids, class.cert_dir
            ));
        }
        if let Some(held) = r.held_set(ca.inst, &ca.name) {
            text.push_str(&held.to_string());
        }
    }
    if let Ok((objects, _)) = r.world.objects(0) {
        for (uri, bytes) in objects {
            if uri.ends_with(".cer") || uri.ends_with(".roa")
                || uri.ends_with(".asa")
            {
                text.push_str(&uri);
                text.push_str(&crate::util::sha256_hex(&bytes)[..16]);
            }
        }
    }
    crate::util::sha256_hex(text.as_bytes())
}

/// Whether the CA has open requests towards a parent it is still known at.
pub fn has_open_requests(r: &Runner, inst: usize, name: &str) -> bool {
    let Some(mca) = r.model.ca(inst, name) else { return false };
    let live_parents: Vec<String> = mca.parents.iter().filter(|(_, link)| {
        match r.model.child_at(
            link.parent_inst, &link.parent_ca, &link.child_handle
        ) {
            Some(at_parent) => {
                !at_parent.suspended && (
                    link.parent_ca == "ta"
                    || r.is_live(link.parent_inst, &link.parent_ca, 0)
                )
            }
            None => false
        }
    }).map(|(handle, _)| handle.clone()).collect();
    hooks::with_faults_suspended(|| {
        let i = r.world.inst(inst);
        if !i.is_up() {
            return false
        }
        let Ok(ca) = i.rt().ca_manager().get_ca(&handle(name)) else {
            return false
        };
        ca.parents().any(|p| {
            live_parents.iter().any(|l| l == p.as_str())
                && ca.has_pending_requests(p)
        })
    })
}

/// Convergence and idempotence after the last entitlement change.
pub fn final_convergence(r: &mut Runner) {
    if !r.oracles.c02 {
        return
    }
    // "Once changes and faults have stopped": the network is reliable from
    // here to the end of the run.
    crate::net::set_quiet(true);
    if std::env::var("VERIF_KRILL_LOG").is_ok() { eprintln!("== final_convergence: settle"); }
    let rounds = settle(r, 8);
    if r.dead.is_some() {
        return
    }
    let Some(rounds) = rounds else {
        r.violation(
            "C02", "no_convergence",
            "parent-child synchronisation did not settle within 8 refresh \
             rounds after the last change".to_string()
        );
        return
    };
    r.stats.insert("c02.settle_rounds_max".into(), std::cmp::max(
        rounds as u64,
        r.stats.get("c02.settle_rounds_max").copied().unwrap_or(0)
    ));

    // One current certificate per entitled class with exactly the entitled
    // resources: compare what is published with the model.
    let repo_inst = 0;
    let excluded = r.excluded_dirs(repo_inst);
    let Ok(rpres) = r.world.rp_walk(repo_inst, &excluded) else { return };
    let jail = r.world.inst(repo_inst).cfg.rsync_jail();
    let cas: Vec<crate::model::MCa> = r.model.cas.values().cloned().collect();
    for ca in &cas {
        if !r.is_live(ca.inst, &ca.name, 0) {
            continue
        }
        let dir = format!("{jail}{}/", ca.name);
        for (phandle, link) in &ca.parents {
            if link.parent_ca == "ta" {
                continue
            }
            let Some(at_parent) = r.model.child_at(
                link.parent_inst, &link.parent_ca, &link.child_handle
            ) else { continue };
            if at_parent.suspended {
                continue
            }
            if !r.is_live(link.parent_inst, &link.parent_ca, 0) {
                continue
            }
            let ent = at_parent.ent.to_set();
            // Parent's live classes and what each may give.
            let pdir = format!("{jail}{}/", link.parent_ca);
            let pclasses = r.class_infos(link.parent_inst, &link.parent_ca);
            for pclass in &pclasses {
                if !r.class_live(
                    link.parent_inst, &link.parent_ca, &pclass.name_space, 0
                ) {
                    continue
                }
                let Some(pkey) = &pclass.active_key else { continue };
                // The parent's certificate for this class as validated.
                let Some(pcert) = rpres.ca_certs.iter().find(|c| {
                    c.subject_key.to_string() == *pkey
                        && c.ca_repository.starts_with(&pdir)
                }) else { continue };
                let due = ent.intersection(&pcert.resources);
                // Certificates the parent's key issued to this child.
                let got: Vec<&crate::rp::CaCertFact> = rpres.ca_certs.iter()
                    .filter(|c| {
                        c.issuer_key.to_string() == *pkey
                            && c.ca_repository.starts_with(&dir)
                    }).collect();
                if due.is_empty() {
                    if !got.is_empty() {
                        r.violation(
                            "C02", "converged_extra_certificate",
                            format!(
                                "child {} holds a certificate under {} class \
                                 {} although nothing is due: {}",
                                ca.name, phandle, pclass.rcn, got[0].resources
                            )
                        );
                    }
                    continue
                }
                if got.len() != 1 {
                    r.violation(
                        "C02", "converged_certificate_count",
                        format!(
                            "after convergence child {} has {} certificates \
                             under parent {} class {} (due: {due})",
                            ca.name, got.len(), phandle, pclass.rcn
                        )
                    );
                    continue
                }
                if got[0].resources != due {
                    r.violation(
                        "C02", "converged_resources",
                        format!(
                            "after convergence child {} holds {} under \
                             parent {} class {}, entitled to exactly {due}",
                            ca.name, got[0].resources, phandle, pclass.rcn
                        )
                    );
                }
            }
        }
        if has_open_requests(r, ca.inst, &ca.name) {
            r.violation(
                "C02", "converged_open_requests",
                format!("CA {} still has open requests", ca.name)
            );
        }
    }

    // Idempotence: further synchronisations change nothing.
    if std::env::var("VERIF_KRILL_LOG").is_ok() { eprintln!("== final_convergence: idempotence"); }
    let before: Vec<(String, (usize, bool))> = cas.iter().map(|ca| {
        (ca.name.clone(), r.audit_tail(ca.inst, &ca.name))
    }).collect();
    for _ in 0..2 {
        for idx in 0..r.world.insts.len() {
            if r.world.inst(idx).is_up() {
                r.world.inst(idx).enter();
                let _ = block_on(r.world.inst(idx).mgr().cas_refresh_all());
            }
        }
        if r.exec_pump() != "caught_up" {
            return
        }
    }
    for (ca, (name, old)) in cas.iter().zip(before) {
        if r.model.ca(ca.inst, &name).is_none() {
            continue
        }
        let new = r.audit_tail(ca.inst, &name);
        if new.0 != old.0 {
            r.violation(
                "C02", "not_idempotent",
                format!(
                    "two further refresh rounds added {} command(s) to the \
                     history of CA {name}", new.0 as i64 - old.0 as i64
                )
            );
        }
    }
    let _ = Res::NONE;
}
