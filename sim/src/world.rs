//! Simulated Krill instances: configuration, start-up, restart, pumping.

use std::path::{Path, PathBuf};
use std::sync::Arc;
use std::sync::mpsc;
use krill::commons::actor::Actor;
use krill::commons::storage::{Ident, StorageSystem};
use krill::commons::version::KrillVersion;
use krill::config::Config;
use krill::constants::TASK_QUEUE_NS;
use krill::server::manager::{KrillManager, StartupManager};
use krill::server::properties::PropertiesManager;
use krill::server::runtime::{KrillRuntime, SlowKrillRuntime, ThreadPool};
use krill::upgrades::{prepare_upgrade_data_migrations, UpgradeMode};
use crate::hooks::{self, CrashPayload, FatalPayload};
use crate::rng::Rng;
use crate::seams;

pub const ADMIN: Actor = Actor::system("admin-token");

//------------ Outcome of a guarded call -------------------------------------

#[derive(Debug)]
pub enum Guarded<T> {
    Ok(T),
    /// The simulated process crashed (fault hook unwound).
    Crash,
    /// The daemon would have exited the process.
    Fatal(String),
    /// A genuine panic in the code under test.
    Panic(String),
    /// The cooperative scheduler aborted the run.
    Abort,
}

impl<T> Guarded<T> {
    pub fn is_ok(&self) -> bool {
        matches!(self, Guarded::Ok(_))
    }
}

/// Runs `op`, turning unwinds into a value.
pub fn guarded<T>(op: impl FnOnce() -> T) -> Guarded<T> {
    match std::panic::catch_unwind(std::panic::AssertUnwindSafe(op)) {
        Ok(res) => Guarded::Ok(res),
        Err(payload) => {
            if payload.is::<CrashPayload>() {
                Guarded::Crash
            }
            else if let Some(f) = payload.downcast_ref::<FatalPayload>() {
                Guarded::Fatal(f.0.clone())
            }
            else if payload.is::<crate::sched::AbortPayload>() {
                Guarded::Abort
            }
            else {
                let msg = crate::util::panic_message(&payload);
                let loc = LAST_PANIC_LOCATION.with(|l| l.borrow().clone());
                Guarded::Panic(format!("{msg} at {loc}"))
            }
        }
    }
}

thread_local! {
    static LAST_PANIC_LOCATION: std::cell::RefCell<String>
        = const { std::cell::RefCell::new(String::new()) };
}

/// Installs a panic hook that stays silent for simulated crashes and
/// remembers the location of genuine panics.
pub fn install_panic_hook() {
    std::panic::set_hook(Box::new(|info| {
        let payload = info.payload();
        if payload.is::<CrashPayload>()
            || payload.is::<FatalPayload>()
            || payload.is::<crate::sched::AbortPayload>()
        {
            return
        }
        let loc = info.location().map(|l| {
            format!("{}:{}", l.file(), l.line())
        }).unwrap_or_default();
        LAST_PANIC_LOCATION.with(|l| *l.borrow_mut() = loc.clone());
        if std::env::var("VERIF_SHOW_PANICS").is_ok() {
            let msg = if let Some(s) = payload.downcast_ref::<&str>() {
                (*s).to_string()
            } else if let Some(s) = payload.downcast_ref::<String>() {
                s.clone()
            } else { String::new() };
            eprintln!("panic: {msg} at {loc}");
        }
    }));
}

//------------ Instance configuration ----------------------------------------

#[derive(Clone, Debug)]
pub struct Timing {
    pub publish_next_hours: u32,
    pub publish_next_jitter_hours: u32,
    pub publish_hours_before_next: u32,
    pub child_valid_weeks: u32,
    pub child_reissue_weeks_before: u32,
    pub roa_valid_weeks: u32,
    pub roa_reissue_weeks_before: u32,
    pub aspa_valid_weeks: u32,
    pub aspa_reissue_weeks_before: u32,
    pub bgpsec_valid_weeks: u32,
    pub bgpsec_reissue_weeks_before: u32,
}

impl Default for Timing {
    fn default() -> Self {
        Timing {
            publish_next_hours: 24,
            publish_next_jitter_hours: 0,
            publish_hours_before_next: 8,
            child_valid_weeks: 52,
            child_reissue_weeks_before: 4,
            roa_valid_weeks: 52,
            roa_reissue_weeks_before: 4,
            aspa_valid_weeks: 52,
            aspa_reissue_weeks_before: 4,
            bgpsec_valid_weeks: 52,
            bgpsec_reissue_weeks_before: 4,
        }
    }
}

#[derive(Clone, Debug)]
pub struct RrdpCfg {
    pub min_nr: usize,
    pub min_seconds: u32,
    pub max_nr: usize,
    pub max_seconds: u32,
    pub interval_min_seconds: u32,
    pub archive: bool,
}

impl Default for RrdpCfg {
    fn default() -> Self {
        RrdpCfg {
            min_nr: 5, min_seconds: 1200, max_nr: 50, max_seconds: 7200,
            interval_min_seconds: 0, archive: false,
        }
    }
}

#[derive(Clone, Debug)]
pub struct InstCfg {
    /// Host label, e.g. "a" gives https://rpki-a.sim.example/.
    pub label: String,
    pub disk: bool,
    pub testbed: bool,
    pub ta_proxy: bool,
    pub ta_signer: bool,
    pub roa_aggregate_threshold: usize,
    pub roa_deaggregate_threshold: usize,
    pub timing: Timing,
    pub rrdp: RrdpCfg,
    pub ca_refresh_seconds: u32,
    pub ca_refresh_jitter_seconds: u32,
    pub suspend_hours: Option<u32>,
    pub use_history_cache: bool,
    pub test_mode: bool,
}

impl InstCfg {
    pub fn basic(label: &str) -> Self {
        InstCfg {
            label: label.to_string(),
            disk: true,
            testbed: true,
            ta_proxy: false,
            ta_signer: false,
            roa_aggregate_threshold: 100,
            roa_deaggregate_threshold: 90,
            timing: Timing::default(),
            rrdp: RrdpCfg::default(),
            ca_refresh_seconds: 3600,
            ca_refresh_jitter_seconds: 0,
            suspend_hours: None,
            use_history_cache: true,
            test_mode: false,
        }
    }

    pub fn host(&self) -> String {
        format!("rpki-{}.sim.example", self.label)
    }

    pub fn service_uri(&self) -> String {
        format!("https://{}/", self.host())
    }

    pub fn rrdp_base_uri(&self) -> String {
        format!("https://{}/rrdp/", self.host())
    }

    pub fn rsync_jail(&self) -> String {
        format!("rsync://{}/repo/", self.host())
    }

    pub fn ta_aia(&self) -> String {
        format!("rsync://{}/ta/ta.cer", self.host())
    }

    pub fn ta_uri(&self) -> String {
        format!("https://{}/ta/ta.cer", self.host())
    }

    /// Renders the configuration file a deployment would use.
    pub fn to_toml(&self, dir: &Path) -> String {
        let mut s = String::new();
        let data = dir.join("data");
        if self.disk {
            s.push_str(&format!("storage_uri = \"{}\"\n", data.display()));
        }
        else {
            s.push_str("storage_uri = \"memory:\"\n");
            s.push_str(&format!(
                "tls_keys_dir = \"{}\"\n", dir.join("ssl").display()
            ));
            s.push_str(&format!(
                "repo_dir = \"{}\"\n", data.join("repo").display()
            ));
            s.push_str(&format!(
                "pid_file = \"{}\"\n", dir.join("krill.pid").display()
            ));
        }
        s.push_str(&format!("service_uri = \"{}\"\n", self.service_uri()));
        s.push_str("admin_token = \"sim-secret\"\n");
        s.push_str("log_type = \"stderr\"\nlog_level = \"off\"\n");
        s.push_str("num_threads = 1\n");
        s.push_str("unix_socket_enabled = false\n");
        s.push_str("bgp_riswhois_enabled = false\n");
        s.push_str(&format!(
            "use_history_cache = {}\n", self.use_history_cache
        ));
        s.push_str(&format!(
            "ca_refresh_seconds = {}\nca_refresh_jitter_seconds = {}\n",
            self.ca_refresh_seconds, self.ca_refresh_jitter_seconds
        ));
        if let Some(hours) = self.suspend_hours {
            s.push_str(&format!(
                "suspend_child_after_inactive_hours = {hours}\n"
            ));
        }
        s.push_str(&format!(
            "roa_aggregate_threshold = {}\nroa_deaggregate_threshold = {}\n",
            self.roa_aggregate_threshold, self.roa_deaggregate_threshold
        ));
        let t = &self.timing;
        s.push_str(&format!(
            "timing_publish_next_hours = {}\n\
             timing_publish_next_jitter_hours = {}\n\
             timing_publish_hours_before_next = {}\n\
             timing_child_certificate_valid_weeks = {}\n\
             timing_child_certificate_reissue_weeks_before = {}\n\
             timing_roa_valid_weeks = {}\n\
             timing_roa_reissue_weeks_before = {}\n\
             timing_aspa_valid_weeks = {}\n\
             timing_aspa_reissue_weeks_before = {}\n\
             timing_bgpsec_valid_weeks = {}\n\
             timing_bgpsec_reissue_weeks_before = {}\n",
            t.publish_next_hours, t.publish_next_jitter_hours,
            t.publish_hours_before_next, t.child_valid_weeks,
            t.child_reissue_weeks_before, t.roa_valid_weeks,
            t.roa_reissue_weeks_before, t.aspa_valid_weeks,
            t.aspa_reissue_weeks_before, t.bgpsec_valid_weeks,
            t.bgpsec_reissue_weeks_before,
        ));
        let r = &self.rrdp;
        s.push_str(&format!(
            "rrdp_delta_files_min_nr = {}\n\
             rrdp_delta_files_min_seconds = {}\n\
             rrdp_delta_files_max_nr = {}\n\
             rrdp_delta_files_max_seconds = {}\n\
             rrdp_delta_interval_min_seconds = {}\n\
             rrdp_files_archive = {}\n",
            r.min_nr, r.min_seconds, r.max_nr, r.max_seconds,
            r.interval_min_seconds, r.archive
        ));
        if self.testbed {
            s.push_str(&format!(
                "\n[testbed]\nta_aia = \"{}\"\nta_uri = \"{}\"\n\
                 rrdp_base_uri = \"{}\"\nrsync_jail = \"{}\"\n",
                self.ta_aia(), self.ta_uri(),
                self.rrdp_base_uri(), self.rsync_jail()
            ));
        }
        else {
            // Top-level keys must precede tables; nothing else follows.
            let mut head = String::new();
            if self.ta_proxy {
                head.push_str("ta_support_enabled = true\n");
            }
            if self.ta_signer {
                head.push_str("ta_signer_enabled = true\n");
            }
            s = head + &s;
        }
        s
    }
}

//------------ Instance ------------------------------------------------------

pub struct Instance {
    pub idx: usize,
    pub cfg: InstCfg,
    pub dir: PathBuf,
    pub skew_secs: i64,
    mgr: Option<Arc<KrillManager>>,
    pool: Option<ThreadPool>,
    tokio: tokio::runtime::Runtime,
    /// How often this instance has been (re)started.
    pub starts: u32,
    /// The virtual time of the first start ("server start time").
    pub started_at: i64,
}

impl Instance {
    pub fn new(idx: usize, cfg: InstCfg, base: &Path) -> Self {
        let dir = base.join(&cfg.label);
        std::fs::create_dir_all(&dir).expect("create instance dir");
        let tokio = tokio::runtime::Builder::new_current_thread()
            .build().expect("tokio runtime");
        Instance {
            idx, cfg, dir, skew_secs: 0, mgr: None, pool: None, tokio,
            starts: 0, started_at: 0,
        }
    }

    pub fn config_path(&self) -> PathBuf {
        self.dir.join("krill.conf")
    }

    pub fn data_dir(&self) -> PathBuf {
        self.dir.join("data")
    }

    pub fn repo_dir(&self) -> PathBuf {
        self.data_dir().join("repo")
    }

    /// Loads the configuration the way the daemon does.
    pub fn load_config(&self) -> Result<Config, String> {
        std::fs::write(self.config_path(), self.cfg.to_toml(&self.dir))
            .map_err(|e| format!("cannot write config: {e}"))?;
        let mut config = Config::read_config(self.config_path())
            .map_err(|e| format!("read_config: {e}"))?;
        config.process().map_err(|e| format!("refused: {e}"))?;
        Ok(config)
    }

    pub fn is_up(&self) -> bool {
        self.mgr.is_some()
    }

    /// Starts (or restarts) the daemon core on the instance's data.
    ///
    /// Mirrors `start_krill_daemon` up to the point where the HTTP server
    /// would start listening; the scheduler thread is not spawned (hook
    /// `no_spawn`), its loop is run by `run_scheduler`.
    pub fn start(&mut self) -> Result<(), String> {
        self.enter();
        if self.cfg.test_mode {
            krill::constants::enable_test_mode();
        }
        let config = self.load_config()?;
        let storage = StorageSystem::new(config.storage_uri.clone());
        let properties = PropertiesManager::create(
            &storage, config.use_history_cache
        ).map_err(|e| format!("properties: {e}"))?;
        prepare_upgrade_data_migrations(
            UpgradeMode::PrepareToFinalise, &storage, &config, &properties
        ).map_err(|e| format!("upgrade: {e}"))?;
        if !properties.is_initialized() {
            properties.init(KrillVersion::code_version())
                .map_err(|e| format!("properties init: {e}"))?;
        }
        let mut startup = StartupManager::new(
            config, storage, self.tokio.handle().clone()
        ).map_err(|e| format!("startup: {e}"))?;
        startup.prepare_testbed().map_err(|e| format!("testbed: {e}"))?;
        startup.run_scheduler().map_err(|e| format!("scheduler: {e}"))?;
        let (mgr, pool) = startup.promote()
            .map_err(|e| format!("promote: {e}"))?;
        self.mgr = Some(Arc::new(mgr));
        self.pool = Some(pool);
        if self.starts == 0 {
            self.started_at = seams::now_secs() + self.skew_secs;
        }
        self.starts += 1;
        crate::net::register(
            &self.cfg.host(), self.idx, self.skew_secs, self.started_at,
            self.mgr.as_ref().unwrap().clone()
        );
        Ok(())
    }

    /// Discards every in-memory object of the instance.
    pub fn stop(&mut self) {
        crate::net::unregister(&self.cfg.host());
        self.mgr = None;
        if let Some(pool) = self.pool.take() {
            pool.terminate();
        }
    }

    /// Makes the calling thread act for this instance (clock skew, event
    /// attribution).
    pub fn enter(&self) {
        hooks::set_current_instance(self.idx);
        seams::set_thread_skew_secs(self.skew_secs);
        hooks::state().sched_started = Some(self.started_at);
    }

    pub fn mgr(&self) -> &Arc<KrillManager> {
        self.mgr.as_ref().expect("instance is down")
    }

    pub fn rt(&self) -> &KrillRuntime {
        self.mgr().verif_runtime()
    }

    /// Runs the real scheduler loop until no task is due.
    pub fn run_scheduler(&self) {
        self.enter();
        let (tx, rx) = mpsc::channel::<()>();
        krill::server::scheduler::verif_run(
            SlowKrillRuntime::new(self.rt().clone()), rx
        );
        drop(tx);
    }

    /// Runs the real scheduler loop for at most one task.
    ///
    /// Returns whether a task was claimed. The loop is stopped through its
    /// own shutdown channel, which the kv hook signals when the task is
    /// claimed.
    pub fn run_scheduler_step(&self) -> bool {
        self.enter();
        let (tx, rx) = mpsc::channel::<()>();
        let before = {
            let mut st = hooks::state();
            st.step_tx = Some(tx.clone());
            st.tasks_claimed
        };
        let res = std::panic::catch_unwind(std::panic::AssertUnwindSafe(|| {
            krill::server::scheduler::verif_run(
                SlowKrillRuntime::new(self.rt().clone()), rx
            );
        }));
        let after = {
            let mut st = hooks::state();
            st.step_tx = None;
            st.tasks_claimed
        };
        drop(tx);
        if let Err(payload) = res {
            std::panic::resume_unwind(payload);
        }
        after > before
    }

    /// Returns `(due_millis, key)` of all pending tasks.
    #[allow(clippy::doc_lazy_continuation)]
    pub fn pending_tasks(&self) -> Vec<(u128, String)> {
        hooks::with_faults_suspended(|| {
            let Ok(store) = self.rt().storage().open(TASK_QUEUE_NS) else {
                return Vec::new()
            };
            let scope = Ident::make("pending");
            let mut res = Vec::new();
            if let Ok(keys) = store.keys(Some(scope), "") {
                for key in keys {
                    if let Some((ts, name)) = key.as_str().split_once('-') {
                        if let Ok(ts) = ts.parse::<u128>() {
                            res.push((ts, name.to_string()));
                        }
                    }
                }
            }
            res.sort();
            res
        })
    }

    pub fn running_tasks(&self) -> Vec<(u128, String)> {
        hooks::with_faults_suspended(|| {
            let Ok(store) = self.rt().storage().open(TASK_QUEUE_NS) else {
                return Vec::new()
            };
            let scope = Ident::make("running");
            let mut res = Vec::new();
            if let Ok(keys) = store.keys(Some(scope), "") {
                for key in keys {
                    if let Some((ts, name)) = key.as_str().split_once('-') {
                        if let Ok(ts) = ts.parse::<u128>() {
                            res.push((ts, name.to_string()));
                        }
                    }
                }
            }
            res.sort();
            res
        })
    }
}

impl Drop for Instance {
    fn drop(&mut self) {
        self.stop();
    }
}

//------------ Run directory -------------------------------------------------

/// Creates a fresh run directory on tmpfs and returns its path.
pub fn make_run_dir(seed: u64, tag: &str) -> PathBuf {
    let base = PathBuf::from(format!(
        "/dev/shm/krill-sim-{}/{}-{}", std::process::id(), tag, seed
    ));
    let _ = std::fs::remove_dir_all(&base);
    std::fs::create_dir_all(&base).expect("create run dir");
    base
}

/// One step of the real scheduler loop on the calling thread: claims and
/// runs at most one due task. Returns whether a task was claimed.
pub fn scheduler_step(rt: &KrillRuntime) -> bool {
    let (tx, rx) = mpsc::channel::<()>();
    let before = {
        let mut st = hooks::state();
        st.step_tx = Some(tx.clone());
        st.tasks_claimed
    };
    let res = std::panic::catch_unwind(std::panic::AssertUnwindSafe(|| {
        krill::server::scheduler::verif_run(
            SlowKrillRuntime::new(rt.clone()), rx
        );
    }));
    let after = {
        let mut st = hooks::state();
        st.step_tx = None;
        st.tasks_claimed
    };
    drop(tx);
    if let Err(payload) = res {
        std::panic::resume_unwind(payload);
    }
    after > before
}

pub fn remove_run_dir(dir: &Path) {
    let _ = std::fs::remove_dir_all(dir);
}

pub fn remove_process_dir() {
    let _ = std::fs::remove_dir_all(format!(
        "/dev/shm/krill-sim-{}", std::process::id()
    ));
}

//------------ Swarm configuration -------------------------------------------

/// Draws an instance configuration from the seed (swarm testing).
pub fn draw_inst_cfg(label: &str, rng: &mut Rng, wide_timing: bool) -> InstCfg {
    let mut cfg = InstCfg::basic(label);
    // Aggregation thresholds, including equal, adjacent and tiny values.
    match rng.below(6) {
        0 => { cfg.roa_aggregate_threshold = 100;
               cfg.roa_deaggregate_threshold = 90; }
        1 => { cfg.roa_aggregate_threshold = 3;
               cfg.roa_deaggregate_threshold = 2; }
        2 => { cfg.roa_aggregate_threshold = 2;
               cfg.roa_deaggregate_threshold = 2; }
        3 => { cfg.roa_aggregate_threshold = 4;
               cfg.roa_deaggregate_threshold = 1; }
        4 => { cfg.roa_aggregate_threshold = 1;
               cfg.roa_deaggregate_threshold = 0; }
        _ => { cfg.roa_aggregate_threshold = 5;
               cfg.roa_deaggregate_threshold = 4; }
    }
    cfg.use_history_cache = rng.chance(1, 2);
    cfg.test_mode = false;
    cfg.ca_refresh_seconds = *rng.pick(&[3600, 7200, 86400]);
    cfg.ca_refresh_jitter_seconds = *rng.pick(&[0, 0, 600]);
    if wide_timing {
        let next = *rng.pick(&[2u32, 3, 8, 24, 48]);
        cfg.timing.publish_next_hours = next;
        cfg.timing.publish_hours_before_next =
            1 + rng.below((next - 1) as u64) as u32;
        cfg.timing.publish_next_jitter_hours =
            if rng.chance(1, 3) { rng.below((next / 2 + 1) as u64) as u32 }
            else { 0 };
        for (valid, before) in [
            (&mut cfg.timing.roa_valid_weeks,
             &mut cfg.timing.roa_reissue_weeks_before),
            (&mut cfg.timing.aspa_valid_weeks,
             &mut cfg.timing.aspa_reissue_weeks_before),
            (&mut cfg.timing.bgpsec_valid_weeks,
             &mut cfg.timing.bgpsec_reissue_weeks_before),
            (&mut cfg.timing.child_valid_weeks,
             &mut cfg.timing.child_reissue_weeks_before),
        ] {
            *valid = *rng.pick(&[2u32, 3, 8, 52, 60]);
            *before = 1 + rng.below((*valid - 1) as u64) as u32;
        }
    }
    cfg.rrdp.interval_min_seconds = *rng.pick(&[0u32, 0, 0, 60, 300]);
    cfg
}
