//! C15: the trust-anchor proxy and signer only accept each other's fresh
//! messages.
//!
//! The harness is the courier between the proxy and the (local) signer of a
//! simulated instance: it asks the proxy for a signed request, lets the
//! signer process it and hands the signed response back - or first delivers
//! replayed, stale, modified and cross-signed versions of either message.

use std::collections::BTreeSet;
use std::str::FromStr;
use rpki::ca::idexchange::ParentHandle;
use rpki::repository::manifest::Manifest;
use krill::api::ta::{TrustAnchorSignedRequest, TrustAnchorSignedResponse};
use krill::server::runtime::{KrillRuntime, SlowKrillRuntime};
use crate::history::{Oracles, Runner, Violation};
use crate::hooks;
use crate::model::Res;
use crate::ops::{GenCfg, Op};
use crate::rng::Rng;
use crate::runs::{RunReport, START_SECS};
use crate::seams;
use crate::sim::{handle, World};
use crate::util::{block_on, sha256_hex};
use crate::world::{self, guarded, Guarded, ADMIN};

/// Versions of proxy and signer, the children's view and the TA's
/// published objects: what a refused message must leave alone.
fn ta_digest(rt: &KrillRuntime) -> String {
    hooks::with_faults_suspended(|| {
        // Not the version: a refused command leaves an audit record and
        // takes a version number (see C07).
        let mut text = String::new();
        let strip = |mut v: serde_json::Value| {
            if let Some(obj) = v.as_object_mut() {
                obj.remove("version");
            }
            crate::util::sha256_hex(v.to_string().as_bytes())
        };
        if let Ok(proxy) = rt.ca_manager().get_trust_anchor_proxy() {
            text.push_str(&format!(
                "proxy:{};", strip(
                    serde_json::to_value(proxy.as_ref()).unwrap_or_default()
                )
            ));
        }
        if let Ok(signer) = rt.ca_manager().get_trust_anchor_signer() {
            text.push_str(&format!(
                "signer:{};", strip(
                    serde_json::to_value(signer.as_ref()).unwrap_or_default()
                )
            ));
        }
        if let Ok((objects, _)) = crate::rp::collect_objects(rt) {
            for (uri, bytes) in objects {
                text.push_str(&uri);
                text.push_str(&sha256_hex(&bytes)[..16]);
            }
        }
        sha256_hex(text.as_bytes())
    })
}

/// The manifest number of the trust anchor as published.
fn ta_manifest_number(r: &Runner) -> Option<u128> {
    hooks::with_faults_suspended(|| {
        let rt = r.world.inst(0).rt();
        let jail = r.world.inst(0).cfg.rsync_jail();
        let (objects, _) = crate::rp::collect_objects(rt).ok()?;
        for (uri, bytes) in objects {
            let rest = uri.strip_prefix(&jail)?;
            if !rest.contains('/') && rest.ends_with(".mft") {
                let mft = Manifest::decode(bytes.as_ref(), true).ok()?;
                let number = mft.content().manifest_number();
                let digits = number.to_string();
                return u128::from_str_radix(&digits, 16).ok()
                    .or_else(|| digits.parse().ok())
            }
        }
        None
    })
}

fn exchanges(rt: &KrillRuntime) -> usize {
    hooks::with_faults_suspended(|| {
        rt.ca_manager().get_trust_anchor_signer()
            .ok().and_then(|s| {
                serde_json::to_value(s.get_exchanges()).ok()
            }).and_then(|v| v.as_array().map(|a| a.len())).unwrap_or(0)
    })
}

fn sync_child(r: &Runner, child: &str) -> Result<bool, String> {
    let rt = r.world.inst(0).rt().clone();
    r.world.inst(0).enter();
    match guarded(|| rt.ca_manager().ca_sync_parent(
        &handle(child), 0, &ParentHandle::from_str("ta").unwrap(), &ADMIN,
        &SlowKrillRuntime::new(rt.clone())
    )) {
        Guarded::Ok(res) => res.map_err(|e| e.to_string()),
        other => Err(format!("{other:?}")),
    }
}

fn child_state(r: &Runner, child: &str) -> String {
    r.class_infos(0, child).iter().filter(|c| c.parent == "ta")
        .map(|c| format!("{}:{}", c.state, c.key_ids.len()))
        .collect::<Vec<_>>().join(",")
}

pub fn run(seed: u64) -> RunReport {
    let t0 = std::time::Instant::now();
    let mut report = RunReport {
        profile: "c15".into(), seed, ..Default::default()
    };
    let base = world::make_run_dir(seed, "c15");
    hooks::state().reset_for_run(&base, true);
    seams::set_seed(seed);
    seams::set_thread_stream(0);
    seams::set_thread_skew_secs(0);
    seams::enable(true);
    let root = Rng::new(seed);
    let mut cfg_rng = root.fork("config");
    let mut cfg = world::draw_inst_cfg("a", &mut cfg_rng, false);
    cfg.disk = cfg_rng.chance(1, 2);
    report.config = format!("{cfg:?}");
    let mut w = World::new(&base, START_SECS);
    w.add_instance(cfg);
    let mut r = Runner::new(
        w, root.fork("ops"), GenCfg::default(), Oracles::default()
    );
    match guarded(|| r.world.insts[0].start()) {
        Guarded::Ok(Ok(())) => { }
        other => {
            report.harness_error = Some(format!("start: {other:?}"));
            world::remove_run_dir(&base);
            return report
        }
    }
    r.register_testbed(0);
    r.exec_pump();
    let mut rng = root.fork("c15");
    let mut violations: Vec<Violation> = Vec::new();
    let mut log: Vec<String> = Vec::new();
    let mut cases: BTreeSet<String> = BTreeSet::new();
    let mut step = 0usize;
    macro_rules! fail {
        ($rule:expr, $($arg:tt)*) => {
            violations.push(Violation {
                prop: "C15".into(), rule: $rule.into(),
                detail: format!($($arg)*), step,
            })
        };
    }

    // Two children of the trust anchor besides "testbed".
    let children = ["t1", "t2"];
    for (i, name) in children.iter().enumerate() {
        r.exec(&Op::CreateCa {
            inst: 0, name: name.to_string(), parent_inst: 0,
            parent: "ta".into(),
            res: Res { v4: 0x000f << (4 * i), v6: 0x03 << (2 * i), asn: 0x03 << (2 * i) },
        });
        r.exec_pump();
    }
    if r.dead.is_some() {
        report.harness_error = Some(format!("setup died: {:?}", r.dead));
        world::remove_run_dir(&base);
        return report
    }
    let rt = r.world.inst(0).rt().clone();
    let rogue_key = match rt.signer().create_self_signed_id_cert() {
        Ok(cert) => cert.public_key().key_identifier(),
        Err(err) => {
            report.harness_error = Some(format!("rogue key: {err}"));
            world::remove_run_dir(&base);
            return report
        }
    };
    let mut last_number = ta_manifest_number(&r);
    let mut stale_response: Option<TrustAnchorSignedResponse> = None;
    let mut stale_request: Option<TrustAnchorSignedRequest> = None;
    let rounds = 2 + rng.usize(3);

    for round in 0..rounds {
        step = round * 100;
        // New child requests: a key roll step in one or both children.
        let mut requesting: Vec<&str> = Vec::new();
        for child in children {
            if rng.chance(2, 3) || requesting.is_empty() {
                let inst = r.world.inst(0);
                inst.enter();
                let state = child_state(&r, child);
                let res = if state.starts_with("active") {
                    block_on(inst.mgr().ca_keyroll_init(handle(child), ADMIN))
                }
                else {
                    block_on(inst.mgr().ca_keyroll_activate(handle(child), ADMIN))
                };
                log.push(format!("round {round}: {child} ({state}) roll step -> {}", res.is_ok()));
                let _ = sync_child(&r, child);
                requesting.push(child);
            }
        }
        let before_children: Vec<String> = children.iter()
            .map(|c| child_state(&r, c)).collect();

        //--- The proxy makes a request.
        r.world.inst(0).enter();
        let api_req = match rt.ca_manager().ta_proxy_signer_make_request(&ADMIN, &rt) {
            Ok(req) => req,
            Err(err) => {
                // The real scheduler may have done the exchange already.
                log.push(format!("round {round}: no request: {err}"));
                continue
            }
        };
        let request: TrustAnchorSignedRequest = api_req.into();
        let n_child_requests: usize = request.request.child_requests.iter()
            .map(|c| c.requests.len()).sum();
        log.push(format!(
            "round {round}: request with {n_child_requests} child requests"
        ));
        *report.stats.entry("child_requests".into()).or_insert(0)
            += n_child_requests as u64;
        // A second request while one is open must be refused.
        step += 1;
        let digest = ta_digest(&rt);
        if rt.ca_manager().ta_proxy_signer_make_request(&ADMIN, &rt).is_ok() {
            fail!("second_request_while_open", "round {round}");
        }
        cases.insert("proxy.second_request".into());

        //--- Signer side: requests it must not process.
        let signer_refuses = |what: &str, req: TrustAnchorSignedRequest,
                              violations: &mut Vec<Violation>, step: usize| {
            let before = ta_digest(&rt);
            let res = guarded(|| rt.ca_manager().verif_ta_signer_process_request(
                req, &ADMIN, &rt
            ));
            match res {
                Guarded::Ok(Err(_)) => {
                    if ta_digest(&rt) != before {
                        violations.push(Violation {
                            prop: "C15".into(),
                            rule: "refused_request_changed_state".into(),
                            detail: format!("signer: {what}"), step,
                        });
                    }
                }
                Guarded::Ok(Ok(_)) => violations.push(Violation {
                    prop: "C15".into(), rule: "signer_accepts_bad_request".into(),
                    detail: format!("the signer processed {what}"), step,
                }),
                other => violations.push(Violation {
                    prop: "C16".into(), rule: "panic".into(),
                    detail: format!("signer, {what}: {other:?}"), step,
                }),
            }
        };
        // Signed by somebody else.
        step += 1;
        if let Ok(forged) = request.request.sign(rogue_key, 1, rt.signer()) {
            signer_refuses(
                "a request signed with a key that is not its proxy's",
                forged, &mut violations, step
            );
            cases.insert("signer.foreign_key".into());
        }
        // Content changed after signing.
        step += 1;
        {
            let mut tampered = request.clone();
            tampered.request.nonce = krill::api::ta::Nonce::new();
            signer_refuses(
                "a request whose clear-text nonce differs from the signed \
                 content", tampered, &mut violations, step
            );
            cases.insert("signer.modified_request".into());
        }
        step += 1;
        if n_child_requests > 0 {
            let mut tampered = request.clone();
            tampered.request.child_requests.clear();
            signer_refuses(
                "a request whose child requests were removed after signing",
                tampered, &mut violations, step
            );
            cases.insert("signer.modified_children".into());
        }

        //--- The signer processes the genuine request.
        step += 1;
        let response = match guarded(|| {
            rt.ca_manager().verif_ta_signer_process_request(
                request.clone(), &ADMIN, &rt
            )
        }) {
            Guarded::Ok(Ok(resp)) => resp,
            other => {
                fail!(
                    "signer_refuses_genuine_request", "round {round}: {other:?}"
                );
                break
            }
        };
        cases.insert("signer.genuine".into());
        if ta_digest(&rt) == digest {
            fail!("signer_did_nothing", "round {round}");
        }
        // The same request again: the signer has already answered it.
        step += 1;
        {
            let before = ta_digest(&rt);
            let n0 = exchanges(&rt);
            let res = guarded(|| {
                rt.ca_manager().verif_ta_signer_process_request(
                    request.clone(), &ADMIN, &rt
                )
            });
            let n1 = exchanges(&rt);
            cases.insert("signer.replayed_request".into());
            log.push(format!(
                "round {round}: replayed request -> {} (exchanges {n0} -> {n1})",
                matches!(res, Guarded::Ok(Ok(_)))
            ));
            if n1 != n0 || ta_digest(&rt) != before {
                fail!(
                    "request_answered_twice",
                    "round {round}: the signer processed the same request \
                     (same nonce, {n_child_requests} child requests) a \
                     second time: exchanges {n0} -> {n1}"
                );
            }
        }

        // The open request fetched once more from the proxy: the same
        // request (same nonce), signed anew - a valid message of the
        // associated proxy that the signer has nevertheless answered.
        step += 1;
        if let Ok(again) = rt.ca_manager().ta_proxy_signer_get_request(&rt) {
            let again: TrustAnchorSignedRequest = again.into();
            let before = ta_digest(&rt);
            let n0 = exchanges(&rt);
            let res = guarded(|| {
                rt.ca_manager().verif_ta_signer_process_request(
                    again, &ADMIN, &rt
                )
            });
            let n1 = exchanges(&rt);
            cases.insert("signer.refetched_request".into());
            log.push(format!(
                "round {round}: request fetched again -> {} (exchanges {n0} -> {n1})",
                matches!(res, Guarded::Ok(Ok(_)))
            ));
            if n1 != n0 || ta_digest(&rt) != before {
                fail!(
                    "request_answered_twice",
                    "round {round}: the signer processed a second, newly \
                     signed copy of the request it had answered (same \
                     nonce): exchanges {n0} -> {n1}"
                );
            }
        }

        //--- Proxy side: responses it must not accept.
        let proxy_refuses = |what: &str, resp: TrustAnchorSignedResponse,
                             violations: &mut Vec<Violation>, step: usize| {
            let before = ta_digest(&rt);
            let res = guarded(|| {
                rt.ca_manager().ta_proxy_signer_process_response(
                    resp, &ADMIN, &rt
                )
            });
            match res {
                Guarded::Ok(Err(_)) => {
                    if ta_digest(&rt) != before {
                        violations.push(Violation {
                            prop: "C15".into(),
                            rule: "refused_response_changed_state".into(),
                            detail: format!("proxy: {what}"), step,
                        });
                    }
                }
                Guarded::Ok(Ok(())) => violations.push(Violation {
                    prop: "C15".into(), rule: "proxy_accepts_bad_response".into(),
                    detail: format!("the proxy accepted {what}"), step,
                }),
                other => violations.push(Violation {
                    prop: "C16".into(), rule: "panic".into(),
                    detail: format!("proxy, {what}: {other:?}"), step,
                }),
            }
        };
        step += 1;
        if let Some(old) = stale_response.clone() {
            proxy_refuses(
                "the response of an earlier exchange (stale nonce)", old,
                &mut violations, step
            );
            cases.insert("proxy.stale_response".into());
        }
        step += 1;
        if let Ok(forged) = response.content().clone().sign(1, rogue_key, rt.signer()) {
            proxy_refuses(
                "a response with the right nonce signed with a key that \
                 is not its signer's", forged, &mut violations, step
            );
            cases.insert("proxy.foreign_key".into());
        }
        step += 1;
        {
            // Clear text altered, signature kept.
            let mut value = serde_json::to_value(&response).unwrap();
            let mut changed = false;
            if let Some(children) = value.get_mut("response")
                .and_then(|r| r.get_mut("child_responses"))
                .and_then(|c| c.as_object_mut())
            {
                if !children.is_empty() {
                    children.clear();
                    changed = true;
                }
            }
            if !changed {
                if let Some(rev) = value.get_mut("response")
                    .and_then(|r| r.get_mut("objects"))
                    .and_then(|o| o.get_mut("revision"))
                    .and_then(|r| r.get_mut("number"))
                {
                    *rev = serde_json::Value::from(1);
                    changed = true;
                }
            }
            if changed {
                if let Ok(tampered) = serde_json::from_value::<TrustAnchorSignedResponse>(value) {
                    if tampered != response {
                        proxy_refuses(
                            "a response whose clear text was altered after \
                             signing", tampered, &mut violations, step
                        );
                        cases.insert("proxy.modified_response".into());
                    }
                }
            }
        }
        step += 1;
        {
            // One flipped bit in the signed message.
            let mut value = serde_json::to_value(&response).unwrap();
            if let Some(signed) = value.get_mut("signed") {
                let text = signed.to_string();
                // Find a base64 payload and alter one character.
                if let Some(s) = find_long_string(signed) {
                    let mut chars: Vec<char> = s.chars().collect();
                    let pos = chars.len() / 2 + rng.usize(chars.len() / 4);
                    chars[pos] = if chars[pos] == 'A' { 'B' } else { 'A' };
                    replace_long_string(signed, chars.into_iter().collect());
                    let _ = text;
                    if let Ok(tampered) = serde_json::from_value::<TrustAnchorSignedResponse>(value) {
                        proxy_refuses(
                            "a response with a corrupted signed message",
                            tampered, &mut violations, step
                        );
                        cases.insert("proxy.corrupted_response".into());
                    }
                }
            }
        }

        //--- The genuine response is accepted, once.
        step += 1;
        match guarded(|| rt.ca_manager().ta_proxy_signer_process_response(
            response.clone(), &ADMIN, &rt
        )) {
            Guarded::Ok(Ok(())) => { cases.insert("proxy.genuine".into()); }
            other => {
                fail!(
                    "proxy_refuses_genuine_response", "round {round}: {other:?}"
                );
                break
            }
        }
        step += 1;
        proxy_refuses(
            "the same response a second time (replay)", response.clone(),
            &mut violations, step
        );
        cases.insert("proxy.replayed_response".into());
        // An old request is of no use to the signer either... it may
        // answer it again with the stored exchange, but not change state.
        if let Some(old) = stale_request.clone() {
            step += 1;
            let before = ta_digest(&rt);
            let n0 = exchanges(&rt);
            let _ = guarded(|| rt.ca_manager().verif_ta_signer_process_request(
                old, &ADMIN, &rt
            ));
            let n1 = exchanges(&rt);
            cases.insert("signer.stale_request".into());
            if n1 != n0 || ta_digest(&rt) != before {
                fail!(
                    "stale_request_processed",
                    "round {round}: the signer processed a request of an \
                     earlier exchange again (exchanges {n0} -> {n1})"
                );
            }
        }
        stale_response = Some(response);
        stale_request = Some(request);

        //--- Publication and delivery to the children.
        let _ = r.exec_pump();
        if r.dead.is_some() {
            fail!("dies", "round {round}: {:?}", r.dead);
            break
        }
        for child in &requesting {
            let _ = sync_child(&r, child);
        }
        let _ = r.exec_pump();
        let after_children: Vec<String> = children.iter()
            .map(|c| child_state(&r, c)).collect();
        log.push(format!(
            "round {round}: children {before_children:?} -> {after_children:?}"
        ));
        for (i, child) in children.iter().enumerate() {
            if requesting.contains(child)
                && before_children[i] == after_children[i]
                && before_children[i].starts_with("roll_pending")
            {
                fail!(
                    "response_not_delivered",
                    "round {round}: child {child} still waits for its \
                     certificate ({})", after_children[i]
                );
            }
        }
        // Delivered exactly once: the proxy holds no response any more for
        // a child that collected it, and asking again changes nothing.
        let open_responses = |r: &Runner| -> Vec<(String, usize)> {
            hooks::with_faults_suspended(|| {
                let rt = r.world.inst(0).rt();
                let Ok(proxy) = rt.ca_manager().get_trust_anchor_proxy()
                else { return Vec::new() };
                let value = serde_json::to_value(proxy.as_ref())
                    .unwrap_or_default();
                let mut out = Vec::new();
                if let Some(children) = value.get("child_details")
                    .and_then(|c| c.as_object())
                {
                    for (name, details) in children {
                        let n = details.get("open_responses")
                            .map(|o| match o {
                                serde_json::Value::Object(m) => m.len(),
                                serde_json::Value::Array(a) => a.len(),
                                _ => 0,
                            }).unwrap_or(0);
                        out.push((name.clone(), n));
                    }
                }
                out.sort();
                out
            })
        };
        for (i, child) in children.iter().enumerate() {
            if !requesting.contains(child)
                || before_children[i] == after_children[i]
            {
                continue
            }
            let held = open_responses(&r).into_iter()
                .find(|(name, _)| name == child).map(|x| x.1).unwrap_or(0);
            if held > 0 {
                fail!(
                    "response_kept_after_delivery",
                    "round {round}: child {child} collected its response \
                     ({} -> {}) but the proxy still holds {held} open \
                     response(s) for it",
                    before_children[i], after_children[i]
                );
            }
            cases.insert("proxy.response_delivered_once".into());
        }
        {
            // A further synchronisation of every child: nothing is
            // delivered a second time.
            let digest_before = ta_digest(r.world.inst(0).rt());
            let states_before: Vec<String> = children.iter()
                .map(|c| child_state(&r, c)).collect();
            for child in &requesting {
                let _ = sync_child(&r, child);
            }
            let states_after: Vec<String> = children.iter()
                .map(|c| child_state(&r, c)).collect();
            if states_before != states_after
                && open_responses(&r).iter().all(|x| x.1 == 0)
                && ta_digest(r.world.inst(0).rt()) == digest_before
            {
                // A child changed state without the trust anchor having
                // anything new for it: a response was delivered again.
                fail!(
                    "response_delivered_twice",
                    "round {round}: a further synchronisation changed \
                     the children from {states_before:?} to \
                     {states_after:?} although the proxy had no open \
                     response"
                );
            }
        }
        // Manifest number of the trust anchor only increases.
        let number = ta_manifest_number(&r);
        if let (Some(prev), Some(now)) = (last_number, number) {
            if now < prev {
                fail!(
                    "ta_manifest_number_decreased",
                    "round {round}: {prev} -> {now}"
                );
            }
            if now > prev {
                cases.insert("ta.manifest_number_grew".into());
            }
        }
        if number.is_some() {
            last_number = number;
        }
        // Time passes between signing sessions.
        r.world.advance(*rng.pick(&[60i64, 3600, 86400]));
    }
    // The tree must be valid at the end (after the regular maintenance
    // that the last clock advance made due).
    if r.dead.is_none() {
        let _ = r.exec_pump();
        let _ = r.exec_pump();
    }
    if r.dead.is_none() {
        let excluded = r.excluded_dirs(0);
        if let Ok(rp) = r.world.rp_walk(0, &excluded) {
            for issue in rp.issues {
                if !issue.contains("expired") && !issue.contains("stale") {
                    fail!("tree_invalid", "{issue}");
                }
            }
        }
    }

    for inst in r.world.insts.iter_mut() {
        inst.stop();
    }
    seams::enable(false);
    {
        let st = hooks::state();
        report.kv_mutations = st.kv_mutations;
        report.fs_mutations = st.fs_mutations;
    }
    report.sim_secs = r.world.sim_secs;
    report.stats.insert("cases".into(), cases.len() as u64);
    report.stats.insert("rounds".into(), rounds as u64);
    report.extra_sites = cases.into_iter().collect();
    report.fingerprint = sha256_hex(log.join("\n").as_bytes());
    report.results = log;
    report.state_changing_ops = 1;
    report.caught_up_checks = 1;
    report.violations = violations;
    let mut seen = BTreeSet::new();
    report.violations.retain(|v| seen.insert((v.prop.clone(), v.rule.clone())));
    report.wall_ms = t0.elapsed().as_millis() as u64;
    world::remove_run_dir(&base);
    report
}

fn find_long_string(v: &serde_json::Value) -> Option<String> {
    match v {
        serde_json::Value::String(s) if s.len() > 200 => Some(s.clone()),
        serde_json::Value::Object(m) => m.values().find_map(find_long_string),
        serde_json::Value::Array(a) => a.iter().find_map(find_long_string),
        _ => None,
    }
}

fn replace_long_string(v: &mut serde_json::Value, new: String) -> bool {
    match v {
        serde_json::Value::String(s) if s.len() > 200 => {
            *s = new;
            true
        }
        serde_json::Value::Object(m) => {
            for val in m.values_mut() {
                if replace_long_string(val, new.clone()) { return true }
            }
            false
        }
        serde_json::Value::Array(a) => {
            for val in a.iter_mut() {
                if replace_long_string(val, new.clone()) { return true }
            }
            false
        }
        _ => false,
    }
}
