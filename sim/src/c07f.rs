//! C07 / C06 under failing writes: bursts of commands without reads in
//! between, one of them with an injected I/O error.
//!
//! The aggregate store keeps the latest state of an entity in a cache that is
//! brought up to date lazily (after a successful command the cached state is
//! one command behind until the next access). What a failing write leaves in
//! that cache therefore depends on whether anything read the entity since the
//! previous command - a situation the other runs never produce, because their
//! oracles read the state after every operation. Here the harness generates a
//! burst of 2-4 API calls against the same CA up front and issues them back to
//! back; for one of them the k-th storage mutation fails (k seeded: the
//! pre-save writes of the object set and the task queue, the command itself,
//! the post-save task and status writes). The instance keeps running.
//!
//! After every burst, with the faults off:
//! * the stored command numbers of every CA are 0..n without a gap (C07);
//! * the version of the live CA is n (C07);
//! * a call that was acknowledged with an effect left exactly one record,
//!   a refused one exactly one error record, in call order (C07);
//! * the live state of every entity equals the state replayed from the
//!   stored commands, from the snapshot and from scratch (C06 oracle);
//! and once more after a restart at the end.

use std::collections::BTreeMap;
use krill::api;
use krill::commons::eventsourcing::Aggregate;
use crate::history::{Oracles, Runner, Violation};
use crate::hooks::{self, FaultMode, FaultPlan, FaultScope};
use crate::ops::{GenCfg, Op};
use crate::rng::Rng;
use crate::runs::{RunReport, START_SECS};
use crate::seams;
use crate::sim::{handle, World};
use crate::world::{self, guarded, Guarded};

fn target_ca(op: &Op) -> Option<String> {
    match op {
        Op::Roa { ca, .. } | Op::Aspa { ca, .. }
        | Op::KeyRollInit { ca, .. } | Op::KeyRollActivate { ca, .. }
        => Some(ca.clone()),
        Op::ChildResources { parent, .. } | Op::ChildSuspend { parent, .. }
        => Some(parent.clone()),
        _ => None
    }
}

/// Keys `command-N.json` stored for a CA (read from the storage directly,
/// not through the aggregate store, so that no cache is touched).
fn stored_numbers(r: &Runner, ca: &str) -> Vec<u64> {
    hooks::with_faults_suspended(|| {
        let rt = r.world.inst(0).rt();
        let Ok(store) = rt.storage().open(krill::constants::CASERVER_NS) else {
            return Vec::new()
        };
        let Ok(scope) = krill::commons::storage::Ident::boxed_from_string(
            ca.to_string()
        ) else { return Vec::new() };
        let mut out: Vec<u64> = store.keys(Some(&scope), "command-")
            .unwrap_or_default().iter().filter_map(|k| {
                k.as_str().strip_prefix("command-")
                    .and_then(|x| x.strip_suffix(".json"))
                    .and_then(|x| x.parse().ok())
            }).collect();
        out.sort();
        out
    })
}

fn ca_names(r: &Runner) -> Vec<String> {
    hooks::with_faults_suspended(|| {
        let mut v: Vec<String> = r.world.inst(0).rt().ca_manager()
            .ca_handles().unwrap_or_default().iter()
            .map(|h| h.to_string()).collect();
        v.sort();
        v
    })
}

/// (version, ok) of the audit records of `ca` from version `from` on.
fn records_from(r: &Runner, ca: &str, from: u64) -> Vec<(u64, bool)> {
    hooks::with_faults_suspended(|| {
        let rt = r.world.inst(0).rt();
        let crit = api::history::CommandHistoryCriteria::default();
        let Ok(history) = rt.ca_manager().ca_history(&handle(ca), crit) else {
            return Vec::new()
        };
        let mut list: Vec<(u64, bool)> = history.commands.iter()
            .filter(|rec| rec.version >= from)
            .map(|rec| (
                rec.version,
                matches!(
                    rec.effect,
                    api::history::CommandHistoryResult::Init()
                    | api::history::CommandHistoryResult::Ok()
                )
            )).collect();
        list.sort();
        list
    })
}

fn audit_checks(r: &mut Runner, when: &str) {
    for ca in ca_names(r) {
        let numbers = stored_numbers(r, &ca);
        let n = numbers.len() as u64;
        if numbers.iter().enumerate().any(|(i, v)| *v != i as u64) {
            r.violation(
                "C07", "audit_gap",
                format!(
                    "{when}: the stored commands of CA {ca} are not \
                     consecutive: {:?}", numbers
                )
            );
            continue
        }
        let version = hooks::with_faults_suspended(|| {
            r.world.inst(0).rt().ca_manager().get_ca(&handle(&ca)).ok()
                .map(|c| c.version())
        });
        if let Some(version) = version {
            if version != n {
                r.violation(
                    "C07", "version_differs_from_audit",
                    format!(
                        "{when}: CA {ca} is at version {version} but {n} \
                         commands (0..{}) are stored", n.saturating_sub(1)
                    )
                );
            }
        }
    }
}

pub fn run(seed: u64) -> RunReport {
    let t0 = std::time::Instant::now();
    let mut report = RunReport {
        profile: "c07fail".to_string(), seed, ..Default::default()
    };
    let base = world::make_run_dir(seed, "c07fail");
    hooks::state().reset_for_run(&base, true);
    seams::set_seed(seed);
    seams::set_thread_stream(0);
    seams::set_thread_skew_secs(0);
    seams::enable(true);
    let root = Rng::new(seed);
    let mut cfg_rng = root.fork("config");
    let mut cfg = world::draw_inst_cfg("a", &mut cfg_rng, false);
    cfg.disk = cfg_rng.chance(1, 2);
    report.config = format!("{cfg:?}");
    let n_prefix = 4 + cfg_rng.usize(7);
    let mut w = World::new(&base, START_SECS);
    w.add_instance(cfg.clone());
    let gen_cfg = GenCfg {
        allow_restart: false,
        allow_delete: false,
        max_cas: 4,
        w_clock: 2,
        w_config: 45,
        invalid_pct: 12,
        max_advance: 600,
        ..GenCfg::default()
    };
    let mut r = Runner::new(w, root.fork("ops"), gen_cfg, Oracles::default());
    let finish = |mut report: RunReport, r: &mut Runner, base: &std::path::Path| {
        for inst in r.world.insts.iter_mut() {
            inst.stop();
        }
        seams::enable(false);
        world::remove_run_dir(base);
        report.wall_ms = t0.elapsed().as_millis() as u64;
        report
    };
    match guarded(|| r.world.insts[0].start()) {
        Guarded::Ok(Ok(())) => { }
        other => {
            report.harness_error = Some(format!("start: {other:?}"));
            return finish(report, &mut r, &base)
        }
    }
    r.register_testbed(0);
    r.exec_pump();
    for _ in 0..n_prefix {
        if r.dead.is_some() { break }
        let op = r.next_op();
        r.exec(&op);
        if r.dead.is_none() && r.rng.below(100) < 60 {
            let _ = r.views();
            r.exec(&Op::Pump);
        }
    }
    let _ = r.views();
    r.exec(&Op::Pump);
    if r.dead.is_some() {
        report.harness_error = Some(format!("prefix died: {:?}", r.dead));
        return finish(report, &mut r, &base)
    }

    let mut rng = root.fork("bursts");
    let n_bursts = 3 + rng.usize(5);
    let mut log: Vec<String> = Vec::new();
    let mut acknowledged = 0u64;
    // CAs whose stored object set got ahead of their command log: an
    // injected fault fell between the pre-save write of the object set and
    // the store of the command (the known finding recorded under C08).
    // Later key-state commands of such a CA are refused by the pre-save
    // listener without a record.
    let mut ahead: std::collections::BTreeSet<String> = Default::default();
    'bursts: for burst in 0..n_bursts {
        // Generate the burst against the reached state (this reads), then
        // issue it without reading anything in between.
        let mut ops: Vec<Op> = Vec::new();
        let want = 2 + rng.usize(3);
        let mut target: Option<String> = None;
        let mut tries = 0;
        while ops.len() < want && tries < 80 {
            tries += 1;
            let op = r.next_op();
            let Some(ca) = target_ca(&op) else { continue };
            match &target {
                None => { target = Some(ca); ops.push(op); }
                // Mostly the same CA, sometimes another one in between.
                Some(t) if *t == ca || tries > 50 || rng.chance(1, 6) => {
                    ops.push(op);
                }
                _ => { }
            }
        }
        if ops.len() < 2 {
            continue
        }
        // Mostly not the first call, so that a command precedes the failing
        // one without a read in between.
        let faulty = if rng.chance(5, 6) {
            if rng.chance(3, 4) { Some(1 + rng.usize(ops.len() - 1)) }
            else { Some(rng.usize(ops.len())) }
        } else { None };
        let k = 1 + rng.below(7);
        let kv_only = rng.chance(1, 2);
        let before: BTreeMap<String, u64> = ca_names(&r).into_iter()
            .map(|ca| { let n = stored_numbers(&r, &ca).len() as u64; (ca, n) })
            .collect();
        let mgr = r.world.inst(0).mgr().clone();
        r.world.inst(0).enter();
        let mut results: Vec<(Op, String, bool)> = Vec::new();
        for (i, op) in ops.iter().enumerate() {
            let armed = faulty == Some(i);
            if armed {
                hooks::state().fault = FaultPlan {
                    mode: FaultMode::FailAt(k),
                    scope: if kv_only { FaultScope::KvOnly } else { FaultScope::All },
                    instance: None,
                    counter: 0,
                    fired_at: None,
                    record: true,
                    sites: Vec::new(),
                };
            }
            let res = guarded(|| crate::conc::api_call(&mgr, op));
            let fired = {
                let mut st = hooks::state();
                let fired = st.fault.fired_at.clone();
                if fired.is_some() && crate::cuts::in_presave_window(
                    &st.fault.sites, st.fault.sites.len()
                ) {
                    if let Some(ca) = target_ca(op) {
                        ahead.insert(ca);
                    }
                }
                st.fault = FaultPlan::default();
                fired
            };
            let text = match res {
                Guarded::Ok(text) => text,
                Guarded::Crash => "CRASH".to_string(),
                Guarded::Fatal(msg) if fired.is_some() => {
                    format!("EXIT-AFTER-FAULT {msg}")
                }
                Guarded::Fatal(msg) => {
                    r.violation(
                        "C07", "daemon_exit",
                        format!("{}: daemon would exit: {msg}", op.kind())
                    );
                    format!("FATAL {msg}")
                }
                Guarded::Panic(msg) => {
                    r.violation(
                        "C07", "panic",
                        format!("{}: panic: {msg}", op.kind())
                    );
                    format!("PANIC {msg}")
                }
                Guarded::Abort => "ABORT".to_string(),
            };
            if let Some(at) = &fired {
                *report.fired.entry("fail_write".into()).or_insert(0) += 1;
                let class = crate::cuts::classify_site(at);
                *report.stats.entry(format!("fail_at.{class}")).or_insert(0) += 1;
                *report.probes.entry(format!("fail.{}|{class}", op.kind()))
                    .or_insert(0) += 1;
            }
            log.push(format!(
                "burst {burst} {} -> {text}{}", op.kind(),
                fired.as_ref().map(|f| format!(" [fault at {f}]")).unwrap_or_default()
            ));
            let died = text.starts_with("EXIT") || text.starts_with("FATAL")
                || text.starts_with("PANIC") || text == "CRASH";
            results.push((op.clone(), text, fired.is_some()));
            report.ops.push(op.clone());
            if died {
                // The daemon stopped on the I/O error: start it again.
                r.world.insts[0].stop();
                match guarded(|| r.world.insts[0].start()) {
                    Guarded::Ok(Ok(())) => { }
                    other => {
                        r.violation(
                            "C08", "restart_fails",
                            format!("after {}: {other:?}", op.kind())
                        );
                        break 'bursts
                    }
                }
                *report.stats.entry("daemon_stopped".into()).or_insert(0) += 1;
                break
            }
        }
        report.results.extend(results.iter().map(|x| x.1.clone()));
        let when = format!(
            "after burst {burst} ({})",
            results.iter().map(|(op, res, f)| format!(
                "{}{}:{res}", op.kind(), if *f { "!" } else { "" }
            )).collect::<Vec<_>>().join(", ")
        );
        // Audit: numbers, versions.
        audit_checks(&mut r, &when);
        // One record per acknowledged call, in call order. Only judged for
        // calls without an injected fault (a failed call may or may not
        // have happened) and only the count: no-ops leave none.
        let mut per_ca_min: BTreeMap<String, u64> = BTreeMap::new();
        let mut per_ca_max: BTreeMap<String, u64> = BTreeMap::new();
        for (op, res, faulted) in &results {
            let Some(ca) = target_ca(op) else { continue };
            let refused = res.starts_with("err");
            if *faulted || (
                ahead.contains(&ca) && res.starts_with("err:publishing-")
            ) {
                // May or may not have left a record.
                *per_ca_max.entry(ca).or_insert(0) += 1;
            }
            else if refused {
                *per_ca_min.entry(ca.clone()).or_insert(0) += 1;
                *per_ca_max.entry(ca).or_insert(0) += 1;
            }
            else if res == "ok" {
                // Accepted: one record unless it was a no-op.
                acknowledged += 1;
                *per_ca_max.entry(ca).or_insert(0) += 1;
            }
        }
        for (ca, from) in &before {
            let recs = records_from(&r, ca, *from);
            let min = per_ca_min.get(ca).copied().unwrap_or(0);
            let max = per_ca_max.get(ca).copied().unwrap_or(0);
            // Child operations also write to the child's log through the
            // post-save synchronisation only via the scheduler, which does
            // not run inside a burst.
            let n = recs.len() as u64;
            let errors = recs.iter().filter(|x| !x.1).count() as u64;
            if n < min || n > max || errors < min {
                r.violation(
                    "C07", "audit_records_differ",
                    format!(
                        "{when}: CA {ca} has {n} new audit records ({errors} \
                         with an error), expected between {min} and {max} \
                         with {min} refusals"
                    )
                );
            }
        }
        // Live = replayed.
        crate::c06::check(&mut r);
        report.caught_up_checks += 1;
        if r.dead.is_some() {
            break
        }
        if rng.chance(1, 2) {
            let _ = r.views();
            r.exec(&Op::Pump);
            if r.dead.is_some() { break }
            audit_checks(&mut r, &format!("after the pump that followed burst {burst}"));
            crate::c06::check(&mut r);
        }
    }
    // Restart: what is loaded from the storage is what was live.
    if r.dead.is_none() {
        r.world.insts[0].stop();
        match guarded(|| r.world.insts[0].start()) {
            Guarded::Ok(Ok(())) => {
                audit_checks(&mut r, "after the final restart");
                crate::c06::check(&mut r);
            }
            other => r.violation(
                "C08", "restart_fails", format!("final restart: {other:?}")
            ),
        }
    }
    if std::env::var_os("VERIF_DEBUG").is_some() {
        for line in &log {
            eprintln!("{line}");
        }
    }
    report.state_changing_ops = acknowledged;
    report.violations = r.violations.clone();
    let mut seen = std::collections::BTreeSet::new();
    report.violations.retain(|v: &Violation| {
        seen.insert((v.prop.clone(), v.rule.clone()))
    });
    for (k, v) in r.stats.iter() {
        *report.stats.entry(k.clone()).or_insert(0) += v;
    }
    report.fingerprint = crate::util::sha256_hex(log.join("\n").as_bytes());
    {
        let st = hooks::state();
        report.kv_mutations = st.kv_mutations;
        report.fs_mutations = st.fs_mutations;
    }
    report.sim_secs = r.world.sim_secs;
    report.tasks_run = r.ext.tasks_run;
    finish(report, &mut r, &base)
}
