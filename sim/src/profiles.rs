//! Per-property run profiles.

use crate::history::Oracles;
use crate::ops::GenCfg;
use crate::runs::Profile;

pub fn profile(name: &str) -> Option<Profile> {
    let base = Profile {
        name: "base",
        oracles: Oracles::default(),
        gen_cfg: GenCfg::default(),
        min_ops: 15,
        max_ops: 45,
        wide_timing: false,
        force_disk: false,
        rebuild_checks: false,
    };
    Some(match name {
        "c01" => Profile {
            name: "c01",
            oracles: Oracles { c01: true, ..Default::default() },
            ..base
        },
        "c05" => Profile {
            name: "c05",
            oracles: Oracles { c05: true, ..Default::default() },
            gen_cfg: GenCfg {
                invalid_pct: 35,
                w_config: 60,
                w_entitlement: 18,
                w_removal: 4,
                w_keyroll: 6,
                ..GenCfg::default()
            },
            ..base
        },
        "all" => Profile {
            name: "all",
            oracles: Oracles::all(),
            rebuild_checks: true,
            ..base
        },
        _ => return None
    })
}
