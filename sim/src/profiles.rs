//! Per-property run profiles.

use crate::history::Oracles;
use crate::ops::GenCfg;
use crate::runs::Profile;

pub fn profile(name: &str) -> Option<Profile> {
    let base = Profile {
        name: "base",
        oracles: Oracles::default(),
        gen_cfg: GenCfg::default(),
        min_ops: 15,
        max_ops: 45,
        wide_timing: false,
        force_disk: false,
        rebuild_checks: false,
        rrdp_swarm: false,
        net: None,
    };
    Some(match name {
        "c01" => Profile {
            name: "c01",
            oracles: Oracles { c01: true, ..Default::default() },
            gen_cfg: GenCfg { w_signer: 2, ..GenCfg::default() },
            ..base
        },
        "c05" => Profile {
            name: "c05",
            oracles: Oracles { c05: true, ..Default::default() },
            gen_cfg: GenCfg {
                invalid_pct: 35,
                w_config: 60,
                w_entitlement: 18,
                w_removal: 4,
                w_keyroll: 6,
                ..GenCfg::default()
            },
            ..base
        },
        "c02" => Profile {
            name: "c02",
            oracles: Oracles { c02: true, ..Default::default() },
            gen_cfg: GenCfg {
                w_entitlement: 45,
                w_config: 12,
                w_removal: 8,
                w_keyroll: 8,
                w_maintenance: 10,
                max_cas: 6,
                allow_delete: false,
                ..GenCfg::default()
            },
            ..base
        },
        "c03" => Profile {
            name: "c03",
            oracles: Oracles { c03: true, ..Default::default() },
            gen_cfg: GenCfg {
                w_entitlement: 18,
                w_config: 30,
                w_removal: 28,
                w_keyroll: 12,
                w_class_map: 12,
                w_signer: 3,
                ..GenCfg::default()
            },
            ..base
        },
        // Removal-heavy histories judged by the follow-up oracle of C09.
        "c09hist" => Profile {
            name: "c09hist",
            oracles: Oracles { c09: true, ..Default::default() },
            gen_cfg: GenCfg {
                w_entitlement: 24,
                w_config: 24,
                w_removal: 28,
                w_keyroll: 14,
                w_class_map: 8,
                ..GenCfg::default()
            },
            ..base
        },
        "c04" => Profile {
            name: "c04",
            oracles: Oracles { c04: true, ..Default::default() },
            gen_cfg: GenCfg {
                w_entitlement: 16,
                w_config: 28,
                w_removal: 5,
                w_keyroll: 34,
                w_signer: 5,
                ..GenCfg::default()
            },
            ..base
        },
        "c14" => Profile {
            name: "c14",
            oracles: Oracles { c14: true, ..Default::default() },
            gen_cfg: GenCfg {
                w_entitlement: 6,
                w_config: 30,
                w_removal: 3,
                w_keyroll: 12,
                w_maintenance: 8,
                w_clock: 40,
                max_advance: 45 * 86400,
                allow_delete: false,
                allow_suspend: false,
                ..GenCfg::default()
            },
            wide_timing: true,
            ..base
        },
        "c06" => Profile {
            name: "c06",
            oracles: Oracles { c06: true, ..Default::default() },
            gen_cfg: GenCfg {
                w_maintenance: 26,
                w_removal: 14,
                snapshot_faults: true,
                ..GenCfg::default()
            },
            rebuild_checks: true,
            ..base
        },
        "c11" => Profile {
            name: "c11",
            oracles: Oracles { c11: true, ..Default::default() },
            gen_cfg: GenCfg {
                w_config: 45,
                w_entitlement: 10,
                w_removal: 5,
                w_keyroll: 8,
                w_maintenance: 14,
                w_clock: 14,
                w_rrdp: 14,
                max_advance: 4 * 3600,
                pump_pct: 70,
                ..GenCfg::default()
            },
            min_ops: 20,
            max_ops: 60,
            rrdp_swarm: true,
            ..base
        },
        "c19" => Profile {
            name: "c19",
            oracles: Oracles { c19: true, c06: true, ..Default::default() },
            gen_cfg: GenCfg {
                w_config: 25,
                w_entitlement: 18,
                w_removal: 22,
                w_keyroll: 10,
                w_maintenance: 20,
                w_clock: 10,
                w_status: 8,
                pump_pct: 70,
                ..GenCfg::default()
            },
            rebuild_checks: true,
            ..base
        },
        // C19 on two instances: failing exchanges come from the transport
        // (lost requests and replies, an unreachable instance, a cut link)
        // as well as from refusals by the other side.
        "c19net" => Profile {
            name: "c19net",
            oracles: Oracles { c19: true, ..Default::default() },
            gen_cfg: GenCfg {
                w_config: 25,
                w_entitlement: 22,
                w_removal: 14,
                w_keyroll: 10,
                w_maintenance: 18,
                w_clock: 8,
                w_status: 8,
                w_partition: 6,
                pump_pct: 70,
                allow_restart: false,
                ..GenCfg::default()
            },
            min_ops: 20,
            max_ops: 50,
            net: Some(crate::net::NetCfg {
                drop_request_permille: 80,
                drop_response_permille: 80,
                duplicate_permille: 40,
                late_copy_permille: 0,
            }),
            ..base
        },
        // "netreplay" additionally delivers copies of requests that were
        // answered long ago, behind later requests of the same sender. The
        // transport (one HTTPS request per exchange, no re-sending of the
        // same bytes by Krill's client) does not do that and none of the
        // listed properties promises protection against replayed messages
        // (Krill has none for RFC 6492 / RFC 8181 messages), so that
        // profile is exploratory and not part of any registered check.
        "net" | "netfaults" | "netpart" | "netreplay" => Profile {
            name: match name {
                "net" => "net", "netfaults" => "netfaults",
                "netpart" => "netpart", _ => "netreplay"
            },
            oracles: Oracles { c01: true, c02: true, c03: true, ..Default::default() },
            gen_cfg: GenCfg {
                w_entitlement: 25,
                w_config: 30,
                w_removal: 8,
                w_keyroll: 12,
                w_maintenance: 10,
                allow_restart: false,
                w_partition: if name == "netpart" { 8 } else { 0 },
                ..GenCfg::default()
            },
            min_ops: if name == "netpart" { 25 } else { 15 },
            max_ops: if name == "netpart" { 60 } else { 45 },
            net: Some(if name == "net" {
                crate::net::NetCfg::reliable()
            } else {
                crate::net::NetCfg {
                    drop_request_permille: 60,
                    drop_response_permille: 60,
                    duplicate_permille: 80,
                    late_copy_permille: if name == "netreplay" { 60 } else { 0 },
                }
            }),
            ..base
        },
        // Two instances, reliable network, and process crashes of either
        // instance in the middle of background work (C08, C09).
        "netcrash" | "netcrashfaults" => Profile {
            name: if name == "netcrash" { "netcrash" } else { "netcrashfaults" },
            oracles: Oracles { c01: true, c02: true, c03: true, ..Default::default() },
            gen_cfg: GenCfg {
                w_entitlement: 25,
                w_config: 30,
                w_removal: 8,
                w_keyroll: 12,
                w_maintenance: 10,
                allow_restart: false,
                w_crash: 14,
                ..GenCfg::default()
            },
            min_ops: 20,
            max_ops: 50,
            force_disk: true,
            net: Some(if name == "netcrash" {
                crate::net::NetCfg::reliable()
            } else {
                crate::net::NetCfg {
                    drop_request_permille: 40,
                    drop_response_permille: 40,
                    duplicate_permille: 50,
                    late_copy_permille: 0,
                }
            }),
            ..base
        },
        "all" => Profile {
            name: "all",
            oracles: Oracles::all(),
            rebuild_checks: true,
            ..base
        },
        _ => return None
    })
}
