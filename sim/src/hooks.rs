//! The harness side of Krill's `verif-hooks` call-outs.
//!
//! One `SimHooks` value is installed per process. Its state is reset at the
//! start of every run. Only one simulated thread executes at any time, so the
//! single mutex around the state is never contended; it is held only briefly
//! and never while calling back into Krill.

use std::cell::Cell;
use std::collections::BTreeMap;
use std::io;
use std::path::{Path, PathBuf};
use std::sync::{Arc, Mutex, MutexGuard, OnceLock};
use bytes::Bytes;
use krill::commons::verif::Hooks;
use crate::sched;

//------------ Panic payloads ------------------------------------------------

/// Thrown by a fault hook to simulate a process crash.
pub struct CrashPayload;

/// Thrown where the daemon would have called `process::exit`.
pub struct FatalPayload(pub String);

//------------ Fault plan ----------------------------------------------------

#[derive(Clone, Debug, PartialEq, Eq)]
pub enum FaultMode {
    /// No fault. Mutations are still counted.
    None,
    /// Crash (unwind) before the k-th matching mutation (1-based).
    CrashAt(u64),
    /// The k-th matching mutation fails with an I/O error.
    FailAt(u64),
    /// Matching `store`/`write`/`create` mutations k..k+len fail ("disk full").
    FullWindow(u64, u64),
    /// The k-th matching mutation, if it is a file write, is torn after
    /// `frac`/256 of its bytes, then the process crashes.
    TornAt(u64, u8),
}

/// Which mutations a plan counts.
#[derive(Clone, Debug, PartialEq, Eq)]
pub enum FaultScope {
    All,
    KvOnly,
    FsOnly,
    /// Only mutations whose description contains this string.
    Matching(String),
}

#[derive(Clone, Debug)]
pub struct FaultPlan {
    pub mode: FaultMode,
    pub scope: FaultScope,
    pub instance: Option<usize>,
    pub counter: u64,
    /// Set once the plan has fired (crash/fail happened).
    pub fired_at: Option<String>,
    /// Descriptions of counted mutations (kept when `record` is set).
    pub record: bool,
    pub sites: Vec<String>,
}

impl Default for FaultPlan {
    fn default() -> Self {
        FaultPlan {
            mode: FaultMode::None,
            scope: FaultScope::All,
            instance: None,
            counter: 0,
            fired_at: None,
            record: false,
            sites: Vec::new(),
        }
    }
}

//------------ State ---------------------------------------------------------

pub type NetHandler = Arc<
    dyn Fn(&str, &[u8], &str) -> Option<Result<Bytes, String>> + Send + Sync
>;

pub type FsObserver = Arc<dyn Fn(&'static str, &Path) + Send + Sync>;

pub struct SimState {
    pub keypool: Arc<Vec<String>>,
    pub key_cursor: usize,
    pub oneoff_cursor: usize,
    pub keys_used_max: usize,
    pub trace_on: bool,
    pub trace: Vec<String>,
    pub fault: FaultPlan,
    pub fired: BTreeMap<String, u64>,
    pub probes: BTreeMap<String, u64>,
    pub kv_mutations: u64,
    pub fs_mutations: u64,
    pub net: Option<NetHandler>,
    pub fs_observer: Option<FsObserver>,
    pub sched_started: Option<i64>,
    pub base_dir: PathBuf,
    pub fatals: Vec<String>,
    /// Single-step mode: signalled when the scheduler claims a task.
    pub step_tx: Option<std::sync::mpsc::Sender<()>>,
    pub tasks_claimed: u64,
    /// Storage key of the task the scheduler claimed last.
    pub last_task: String,
    /// A crash that would fall between a CA's object set being written
    /// and the command that caused it being stored (the known finding
    /// `object_set_ahead_of_command`) is moved to the next mutation.
    pub veto_presave_window: bool,
}

const ONE_OFF_KEYS: usize = 48;

impl SimState {
    fn new() -> Self {
        SimState {
            keypool: Arc::new(Vec::new()),
            key_cursor: 0,
            oneoff_cursor: 0,
            keys_used_max: 0,
            trace_on: false,
            trace: Vec::new(),
            fault: FaultPlan::default(),
            fired: BTreeMap::new(),
            probes: BTreeMap::new(),
            kv_mutations: 0,
            fs_mutations: 0,
            net: None,
            fs_observer: None,
            sched_started: None,
            base_dir: PathBuf::new(),
            fatals: Vec::new(),
            step_tx: None,
            tasks_claimed: 0,
            last_task: String::new(),
            veto_presave_window: false,
        }
    }

    pub fn reset_for_run(&mut self, base_dir: &Path, trace_on: bool) {
        let keypool = self.keypool.clone();
        let keys_used_max = self.keys_used_max;
        *self = SimState::new();
        self.keypool = keypool;
        self.keys_used_max = keys_used_max;
        self.base_dir = base_dir.to_path_buf();
        self.trace_on = trace_on;
    }

    pub fn log(&mut self, line: String) {
        if self.trace_on {
            self.trace.push(line);
        }
    }

    pub fn probe(&mut self, name: &str) {
        *self.probes.entry(name.to_string()).or_insert(0) += 1;
    }

    pub fn fire(&mut self, kind: &str) {
        *self.fired.entry(kind.to_string()).or_insert(0) += 1;
    }
}

static STATE: OnceLock<Mutex<SimState>> = OnceLock::new();

pub fn state() -> MutexGuard<'static, SimState> {
    STATE.get_or_init(|| Mutex::new(SimState::new()))
        .lock().unwrap_or_else(|e| e.into_inner())
}

thread_local! {
    static ONE_OFF_NEXT: Cell<bool> = const { Cell::new(false) };
    static CUR_INSTANCE: Cell<usize> = const { Cell::new(0) };
    /// Fault plans only apply to threads that opted in (simulated threads).
    static FAULTS_ARMED: Cell<bool> = const { Cell::new(true) };
}

pub fn set_current_instance(idx: usize) {
    CUR_INSTANCE.with(|c| c.set(idx));
}

pub fn current_instance() -> usize {
    CUR_INSTANCE.with(|c| c.get())
}

/// Temporarily disables fault plans on the calling thread (for harness reads).
pub fn with_faults_suspended<T>(op: impl FnOnce() -> T) -> T {
    let old = FAULTS_ARMED.with(|c| c.replace(false));
    let res = op();
    FAULTS_ARMED.with(|c| c.set(old));
    res
}

pub fn probe(name: &str) {
    state().probe(name)
}

pub fn log(line: String) {
    state().log(format!("{}{line}", thread_tag()))
}

/// "T<n> " on a simulated thread of the cooperative scheduler.
pub fn thread_tag() -> String {
    match sched::my_id() {
        Some(id) => format!("T{id} "),
        None => String::new(),
    }
}

//------------ Normalisation -------------------------------------------------

/// Replaces the run directory prefix and OpenSSL-random path components.
pub fn normalise_path(base: &Path, path: &Path) -> String {
    let rel = path.strip_prefix(base).unwrap_or(path);
    let mut out = String::new();
    for comp in rel.components() {
        let s = comp.as_os_str().to_string_lossy();
        out.push('/');
        if s.len() == 16 && s.bytes().all(|b| b.is_ascii_hexdigit()) {
            out.push_str("<rnd>");
        }
        else if s.starts_with(".tmp") && s.len() > 4 {
            out.push_str("<tmp>");
        }
        else {
            out.push_str(&s);
        }
    }
    out
}

//------------ Hook implementation -------------------------------------------

enum Verdict { Pass, Fail(String), Crash }

fn fault_decide(
    st: &mut SimState, is_kv: bool, op: &'static str, desc: &str,
) -> Verdict {
    if !FAULTS_ARMED.with(|c| c.get()) {
        return Verdict::Pass
    }
    let veto_window = st.veto_presave_window;
    let mut moved = false;
    let plan = &mut st.fault;
    if let Some(inst) = plan.instance {
        if inst != CUR_INSTANCE.with(|c| c.get()) {
            return Verdict::Pass
        }
    }
    let matches = match &plan.scope {
        FaultScope::All => true,
        FaultScope::KvOnly => is_kv,
        FaultScope::FsOnly => !is_kv,
        FaultScope::Matching(m) => desc.contains(m.as_str()),
    };
    if !matches || op == "torn" {
        return Verdict::Pass
    }
    plan.counter += 1;
    if plan.record {
        plan.sites.push(desc.to_string());
    }
    let k = plan.counter;
    match plan.mode.clone() {
        FaultMode::None => Verdict::Pass,
        FaultMode::CrashAt(n) => {
            if k == n && veto_window && open_presave_window(&plan.sites) {
                plan.mode = FaultMode::CrashAt(n + 1);
                moved = true;
            }
            if moved {
                st.probe("crash_moved_out_of_presave_window");
                Verdict::Pass
            }
            else if k == n {
                plan.fired_at = Some(desc.to_string());
                st.fire("crash");
                Verdict::Crash
            }
            else { Verdict::Pass }
        }
        FaultMode::FailAt(n) => {
            if k == n {
                plan.fired_at = Some(desc.to_string());
                st.fire("fail_write");
                Verdict::Fail(format!("injected I/O error at {desc}"))
            }
            else { Verdict::Pass }
        }
        FaultMode::FullWindow(n, len) => {
            let creates = matches!(
                op,
                "store" | "write" | "create_file" | "create_dir_all"
                    | "rsync_create_tmp"
            );
            if k >= n && k < n + len && creates {
                if plan.fired_at.is_none() {
                    plan.fired_at = Some(desc.to_string());
                }
                st.fire("disk_full");
                Verdict::Fail(format!("injected ENOSPC at {desc}"))
            }
            else { Verdict::Pass }
        }
        FaultMode::TornAt(_, _) => Verdict::Pass, // handled in fs_torn_write
    }
}

/// Whether the last mutation recorded (the one about to happen) comes
/// after a CA's object set was written and before a command was stored or
/// another task was claimed.
fn open_presave_window(sites: &[String]) -> bool {
    let Some((_, before)) = sites.split_last() else { return false };
    for site in before.iter().rev() {
        let kind = crate::cuts::classify_site(site);
        if kind == "kv.store.ca_objects" {
            return true
        }
        if kind == "kv.store.command" || kind == "kv.move_value.task" {
            return false
        }
    }
    false
}

pub struct SimHooks;

impl Hooks for SimHooks {
    fn point(&self, site: &'static str) {
        if site == "one_off_key" {
            ONE_OFF_NEXT.with(|c| c.set(true));
            return
        }
        sched::switch_point(site);
    }

    fn kv_mutation(
        &self, op: &'static str, scope: Option<&str>, key: Option<&str>,
    ) -> Result<(), String> {
        let verdict = {
            let mut st = state();
            st.kv_mutations += 1;
            if op == "move_value" && scope == Some("pending") {
                st.tasks_claimed += 1;
                st.last_task = key.unwrap_or("").to_string();
                if let Some(tx) = &st.step_tx {
                    let _ = tx.send(());
                }
            }
            let desc = format!(
                "kv:{}:{}:{}:{}",
                CUR_INSTANCE.with(|c| c.get()),
                op, scope.unwrap_or("-"), key.unwrap_or("-")
            );
            let verdict = fault_decide(&mut st, true, op, &desc);
            if st.trace_on {
                let tag = match &verdict {
                    Verdict::Pass => "",
                    Verdict::Fail(_) => " FAIL",
                    Verdict::Crash => " CRASH",
                };
                st.trace.push(format!("{}{desc}{tag}", thread_tag()));
            }
            verdict
        };
        match verdict {
            Verdict::Pass => Ok(()),
            Verdict::Fail(msg) => Err(msg),
            Verdict::Crash => std::panic::panic_any(CrashPayload),
        }
    }

    fn fs_mutation(
        &self, op: &'static str, path: &Path,
    ) -> Result<(), io::Error> {
        let (verdict, observer) = {
            let mut st = state();
            st.fs_mutations += 1;
            let desc = format!(
                "fs:{}:{}:{}",
                CUR_INSTANCE.with(|c| c.get()),
                op, normalise_path(&st.base_dir, path)
            );
            let verdict = if op == "torn" {
                if matches!(st.fault.mode, FaultMode::TornAt(_, _))
                    && st.fault.fired_at.is_some()
                {
                    Verdict::Crash
                }
                else {
                    Verdict::Pass
                }
            }
            else {
                fault_decide(&mut st, false, op, &desc)
            };
            if st.trace_on {
                let tag = match &verdict {
                    Verdict::Pass => "",
                    Verdict::Fail(_) => " FAIL",
                    Verdict::Crash => " CRASH",
                };
                st.trace.push(format!("{}{desc}{tag}", thread_tag()));
            }
            (verdict, st.fs_observer.clone())
        };
        if let (Verdict::Pass, Some(observer)) = (&verdict, observer) {
            observer(op, path);
        }
        match verdict {
            Verdict::Pass => Ok(()),
            Verdict::Fail(msg) => Err(io::Error::other(msg)),
            Verdict::Crash => std::panic::panic_any(CrashPayload),
        }
    }

    fn fs_torn_write(&self, _path: &Path, len: usize) -> Option<usize> {
        if !FAULTS_ARMED.with(|c| c.get()) {
            return None
        }
        let mut st = state();
        // The "write" mutation for this file was counted just before.
        if let FaultMode::TornAt(n, frac) = st.fault.mode.clone() {
            if st.fault.counter == n && st.fault.fired_at.is_none() {
                st.fault.fired_at = Some(format!("torn write of {len} bytes"));
                st.fire("torn_write");
                return Some(len * frac as usize / 256)
            }
        }
        None
    }

    fn keypool_next(&self) -> Option<String> {
        let one_off = ONE_OFF_NEXT.with(|c| c.replace(false));
        let mut st = state();
        let pool = st.keypool.clone();
        if pool.is_empty() {
            return None
        }
        let persistent = pool.len() - ONE_OFF_KEYS;
        if one_off {
            let idx = persistent + st.oneoff_cursor % ONE_OFF_KEYS;
            st.oneoff_cursor += 1;
            Some(pool[idx].clone())
        }
        else {
            if st.key_cursor >= persistent {
                eprintln!(
                    "HARNESS-ERROR: key pool exhausted ({persistent} \
                     persistent keys)"
                );
                std::process::exit(2);
            }
            let idx = st.key_cursor;
            st.key_cursor += 1;
            if st.key_cursor > st.keys_used_max {
                st.keys_used_max = st.key_cursor;
            }
            st.log(format!("key:{idx}"));
            Some(pool[idx].clone())
        }
    }

    fn transport(
        &self, uri: &str, body: &[u8], content_type: &str,
    ) -> Option<Result<Bytes, String>> {
        let handler = state().net.clone();
        match handler {
            Some(handler) => handler(uri, body, content_type),
            None => Some(Err(format!("no route to {uri}"))),
        }
    }

    fn fatal(&self, msg: &str) {
        {
            let mut st = state();
            st.fatals.push(msg.to_string());
            st.log(format!("fatal:{msg}"));
        }
        std::panic::panic_any(FatalPayload(msg.to_string()))
    }

    fn sched_idle(&self) -> bool {
        true
    }

    fn sched_started(&self, started: i64) -> i64 {
        state().sched_started.unwrap_or(started)
    }

    fn no_spawn(&self) -> bool {
        true
    }

    fn inline_pool(&self) -> bool {
        true
    }

    fn lock_try(&self, lock: &str, write: bool) -> bool {
        sched::lock_try(lock, write)
    }

    fn lock_blocked(&self, lock: &str, write: bool) {
        sched::lock_blocked(lock, write)
    }

    fn lock_event(&self, lock: &str, what: &'static str) {
        sched::lock_event(lock, what)
    }
}

pub fn install(keypool_path: &Path) {
    let text = std::fs::read_to_string(keypool_path).unwrap_or_else(|e| {
        eprintln!(
            "HARNESS-ERROR: cannot read key pool {}: {e}",
            keypool_path.display()
        );
        std::process::exit(2);
    });
    let mut keys = Vec::new();
    let mut cur = String::new();
    for line in text.lines() {
        cur.push_str(line);
        cur.push('\n');
        if line.starts_with("-----END") {
            keys.push(std::mem::take(&mut cur));
        }
    }
    if keys.len() < ONE_OFF_KEYS + 16 {
        eprintln!("HARNESS-ERROR: key pool too small ({})", keys.len());
        std::process::exit(2);
    }
    state().keypool = Arc::new(keys);
    krill::commons::verif::install(Arc::new(SimHooks));
}
