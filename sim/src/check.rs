//! Check orchestration: fan-out to worker processes, aggregation, known
//! findings, minimisation, replay files and evidence.

use std::collections::{BTreeMap, BTreeSet};
use std::io::{BufRead, BufReader, Write};
use std::process::{Command, Stdio};
use serde::{Deserialize, Serialize};
use serde_json::json;
use crate::history::Violation;
use crate::runs::{self, ReplayFile, RunReport};

const VERIF_DIR: &str = "/verif";

/// Where evidence and replay files go. `/verif` unless `VERIF_OUT` is set
/// (used when a seeded change is evaluated in a scratch copy, so that the
/// committed evidence is not overwritten).
fn out_dir() -> String {
    std::env::var("VERIF_OUT").unwrap_or_else(|_| VERIF_DIR.to_string())
}

//------------ Property table ------------------------------------------------

pub struct PropSpec {
    pub id: &'static str,
    /// (profile, quick runs, thorough runs)
    pub parts: &'static [(&'static str, u64, u64)],
    pub level: &'static str,
    /// Violation `prop` tags that count for this property.
    pub tags: &'static [&'static str],
    pub rule: &'static str,
    pub assumptions: &'static [&'static str],
}

pub fn specs() -> Vec<PropSpec> {
    vec![
        PropSpec {
            id: "C01",
            parts: &[("c01", 480, 6000), ("net", 64, 1500), ("netfaults", 96, 3000), ("netpart", 64, 2000)],
            level: "exploration",
            tags: &["C01"],
            rule: "Each evaluation is one seeded history of 15-45 API \
                operations (plus pumps of the real scheduler) on a \
                swarm-drawn configuration; after every pump that reaches \
                quiescence a strict rpki-rs relying-party walk from the TAL \
                must accept every published object and the per-CA VRP / \
                ASPA / router-key sets must equal the model's prediction. \
                A run is non-trivial if it executed at least one accepted \
                state-changing operation and at least one caught-up check; \
                distinct = distinct SHA-256 fingerprints of the full event \
                log (operations, results, every kv and file-system \
                mutation). Parts net / netfaults / netpart run the same \
                histories on two instances (CAs on B below parents on A, \
                all publishing at A) over the simulated network: reliable, \
                with lost requests and replies, duplicates and delayed \
                copies, and with instance B cut off and reconnected while \
                operations continue on A; there the comparison is made \
                with all instances reachable and, when messages were lost, \
                after one more refresh round with the faults switched off.",
            assumptions: COMMON_ASSUMPTIONS,
        },
        PropSpec {
            id: "C02",
            parts: &[("c02", 480, 6000), ("netfaults", 64, 2000), ("netpart", 48, 1500), ("c12", 32, 600)],
            level: "exploration",
            tags: &["C02"],
            rule: "Each evaluation is one seeded history biased towards \
                entitlement changes at every level of a 2-3 level tree \
                (grow, shrink to partial overlap, to nothing, regain; second \
                parents; suspend/unsuspend). After every API operation and \
                every single background task the stored object set of every \
                CA is decoded: each child certificate must lie inside the \
                issuing key's certificate, must not be empty, and a \
                certificate seen for the first time must equal entitlement \
                ∩ issuer resources (or previous certificate ∩ issuer \
                resources for re-issues the child did not ask for). At the \
                end: at most 8 refresh rounds must bring every child to \
                exactly one certificate per entitled parent class with \
                exactly the entitled resources and no open requests, and \
                two further rounds must not add a single command to any \
                CA's history. Non-trivial/distinct as for C01.",
            assumptions: COMMON_ASSUMPTIONS,
        },
        PropSpec {
            id: "C03",
            parts: &[("c03", 480, 6000), ("netfaults", 64, 2000), ("netpart", 48, 1500)],
            level: "exploration",
            tags: &["C03"],
            rule: "Each evaluation is one seeded history biased towards \
                everything that ends an object's life (re-issue, config \
                removal, child remove/suspend, resource loss, parent \
                removal, CA deletion, key retirement). A ledger records \
                every (issuer key, serial, notAfter, URI) the relying-party \
                walk ever saw; at every quiescence each entry that is no \
                longer in the tree and not expired must be on the CRL of \
                its issuing key as long as that key publishes one, and \
                nothing on a CRL may still be listed. Non-trivial/distinct \
                as for C01.",
            assumptions: COMMON_ASSUMPTIONS,
        },
        PropSpec {
            id: "C04",
            parts: &[("c04", 800, 8000)],
            level: "exploration",
            tags: &["C04"],
            rule: "Each evaluation is one seeded history in which a third \
                of the operations are key-roll steps interleaved with \
                configuration, entitlement and child operations and syncs. \
                After every operation and every single background task: no \
                panic or daemon exit, key state and object sets in step, \
                no products under the staging or old key, activation moves \
                exactly the same product names; at quiescence the \
                published tree shows products under one key per class \
                only; at the end 8 rounds of refresh/pump/activate must \
                bring every class to the single active key state. \
                Non-trivial/distinct as for C01. The trust anchor signer goes off-line and \
                comes back as generated operations (while it is away \
                the proxy/signer synchronisation is held back, requests \
                of the trust anchor's children wait at the proxy); half \
                of the roll steps are taken by CAs directly under the \
                trust anchor.",
            assumptions: COMMON_ASSUMPTIONS,
        },
        PropSpec {
            id: "C14",
            parts: &[("c14", 640, 6000), ("c18", 128, 2000)],
            level: "exploration",
            tags: &["C14"],
            rule: "Each evaluation is one seeded history on a swarm-drawn \
                timing configuration (publish next 2-48 h, margins 1..next-1, \
                validities 2-60 weeks with margins 1..validity-1) with \
                clock advances of minutes to 45 days between content \
                changes and key-roll steps. The stored object sets are \
                decoded before and after every RepublishIfNeeded and \
                RenewObjectsIfNeeded run of the real scheduler: due sets \
                must be re-issued with number+1 and a window containing \
                now, classes with nothing due must stay byte-identical, \
                expiring objects must be renewed and others left alone, \
                product names (payloads) must not change, numbers never \
                decrease, and at quiescence manifest and CRL numbers agree \
                and no validity window excludes the present. \
                Non-trivial/distinct as for C01. Part c18: the concurrent scenarios of C18 in which a \
                forced re-publication request or the due re-publication \
                task overlaps other requests on other threads: the \
                state after quiescence must be that of a serial \
                execution (a maintenance run loses or changes no \
                content).",
            assumptions: COMMON_ASSUMPTIONS,
        },
        PropSpec {
            id: "C06",
            parts: &[("c06", 480, 6000), ("c07fail", 480, 6000)],
            level: "exploration",
            tags: &["C06"],
            rule: "Each evaluation is one seeded history (C01 workload with \
                the real UpdateSnapshots task and restarts at seed-chosen \
                points, both storage back-ends). At every restart and at \
                the end, for every CA, the TA proxy and signer, repository \
                access, signer info and properties: the live aggregate, a \
                fresh store on the same storage (latest snapshot + later \
                commands) and a fresh store on a copy with all snapshots \
                removed (init + every command) are serialised and compared \
                field by field (only `last_key_change` and `since` masked); \
                API views (CertAuthInfo, configured ROAs, child info, \
                status) and the repository content log (publisher content, \
                session, serial) are compared between the live managers \
                and second managers built on the same storage. Any panic \
                or load error is a violation. Non-trivial/distinct as for \
                C01. Part c07fail: a sequential prefix, then 3-7 \
                bursts of 2-4 API calls against one CA issued back to \
                back without any read in between, the k-th storage \
                mutation (k 1-7) of one call per burst failing with an \
                I/O error; after every burst, after the pump that may \
                follow and after a final restart the same three-way \
                comparison runs (what a failed write leaves in the \
                aggregate cache must not differ from what is stored).",
            assumptions: COMMON_ASSUMPTIONS,
        },
        PropSpec {
            id: "C08",
            parts: &[("c08", 96, 960), ("netcrash", 64, 1500), ("netcrashfaults", 64, 1500)],
            level: "fault_enumeration",
            tags: &["C08"],
            rule: "Each evaluation is one (operation, reached state) pair \
                on the disk back-end: a seeded prefix history of 4-12 \
                operations, then one seeded target operation (any API \
                operation of the C01 alphabet) together with the \
                background work it triggers. A counting run records every \
                key-value and file-system mutation of that unit (n); then \
                for every cut point k <= n (all of them, or a seeded \
                sample of 24 when n > 24) the directory snapshot is \
                restored and the unit re-run twice: with a process crash \
                before mutation k (unwind, all memory dropped, restart \
                from the directory) and with mutation k failing with an \
                I/O error; at half of the cut points a third time with \
                the crash followed by a second crash before the j-th \
                mutation (j seeded, 1-40) of the start-up path or of the \
                background work that follows it. After each cut: every entity loads (also in a \
                fresh store), version = audit records + 1, key state / \
                object sets / reported ROA objects agree, the published \
                tree has no invalid, missing or unlisted object; after the \
                recovery procedure (pump, re-submit, refresh all, pump) \
                the normalised observable state must equal that of the \
                fault-free twin. distinct_nontrivial counts distinct \
                (operation kind | mutation site class | fault variant) \
                triples actually cut. Parts netcrash / netcrashfaults \
                are seeded histories of 20-50 operations on two instances \
                (parents and the repository on A, CAs on B reached over \
                the simulated network; reliable, or with lost requests, \
                lost replies and duplicates) in which, several times per \
                run, the process of one instance dies before the k-th \
                storage or file-system mutation it makes during \
                background work - in one of its own tasks, or while it \
                serves a provisioning or publication request of the \
                other instance, which then sees the connection break - \
                and is started again from its directory; crashes that \
                would fall into the window of the known finding \
                object_set_ahead_of_command are moved to the next \
                mutation. The instance must start, and at every later \
                quiescence the relying-party walk, the payload \
                comparison with the reference model and the delegation \
                and revocation oracles of C01-C03 must hold as in a run \
                without the crash (violations are reported as \
                after_crash_*).",
            assumptions: CUT_ASSUMPTIONS,
        },
        PropSpec {
            id: "C09",
            parts: &[("c09cuts", 48, 480), ("c09queue", 1600, 60000), ("c18", 160, 3000), ("c10fail", 480, 8000), ("netcrash", 64, 1500), ("c09hist", 320, 5000)],
            level: "fault_enumeration",
            tags: &["C09", "LIVENESS"],
            rule: "Two kinds of evaluation. (1) c09cuts: one (operation, \
                reached state) pair as for C08, but half of the prefixes \
                leave the follow-up tasks of their last operations \
                pending; the unit (operation plus the background tasks it \
                triggers, run one at a time by the real scheduler) is cut \
                by a process crash before every storage or file-system \
                mutation k (all, or a seeded sample of 40), which \
                includes every instant at which a task is pending or \
                exactly one is running; the same cut points are run \
                with mutation k failing with an I/O error and the \
                instance staying up (then the clock moves on by the \
                retry interval of an hour before the judgement), and \
                half of them with a second crash after the restart. After restart all due tasks are \
                run (the request is NOT submitted again) and then: no \
                task is left in the running state, every recurring task \
                and one parent synchronisation per CA and parent is \
                queued, every CA's stored object set is at the \
                repository (unless the difference is the uncommitted \
                change itself), the rsync tree and the RRDP snapshot \
                equal the repository content and all RRDP files named by \
                the notification exist with the stated hashes, no CA has \
                unsent requests for a live parent that it did not have \
                without the fault, and no parent has a key in use that \
                its child no longer has. The fault-free twin must pass \
                the same checks. (2) c09queue: the real TaskQueue on a \
                disk or memory store driven by a seeded sequence of \
                20-80 schedule / schedule-and-finish / schedule-if-missing \
                / claim / finish / reschedule / clock-advance / restart \
                operations (restart with 0, 1, 2 and more tasks running) \
                against a reference model; after every operation the \
                stored pending and running entries must equal the \
                model's: claim hands out an earliest due task and only a \
                due task, scheduling keeps the earlier time, \
                if-missing respects pending and running entries, restart \
                moves every running task back to pending. \
                distinct_nontrivial counts distinct cut triples \
                (operation kind | mutation site class | crash) plus \
                distinct queue operation logs. (3) c10fail: publication runs in which a \
                write of the task store fails while a delta is \
                processed: an RRDP update queued for an earlier, \
                acknowledged publication must still take place (at the \
                next quiescence the RRDP snapshot holds it). (4) \
                netcrash: two-instance histories with process crashes of \
                either instance in the middle of background tasks (see \
                C08): background work must reach quiescence again after \
                every restart. (5) c09hist: fault-free histories biased \
                towards removals, entitlement changes and key rolls (CAs \
                with two parents, hence children with several classes \
                under one parent); at every quiescence the follow-up \
                oracle of (1) must hold: object sets at the repository, \
                served files equal to the content, and no parent with a \
                key in use that its child gave up (the revocation that \
                follows a removed class or a finished roll).",
            assumptions: CUT_ASSUMPTIONS,
        },
        PropSpec {
            id: "C10",
            parts: &[("c10", 960, 20000), ("c10fail", 640, 8000)],
            level: "exploration",
            tags: &["C10"],
            rule: "Each evaluation is one seeded sequence of 25-75 \
                operations against the real publication server of a \
                simulated instance (disk or memory back-end, per-run RRDP \
                retention configuration): raw publishers with handles \
                that are prefixes of one another, nested (a, a/b) and \
                differing in case are added and removed; they send list \
                queries and deltas of 1-5 elements through \
                RepositoryManager::rfc8181_message - valid ones, the same \
                with upper-case scheme and host, and deltas with exactly \
                one bad element at a drawn position (publish of an \
                existing URI, update/withdraw with a wrong hash or of an \
                absent URI, update/withdraw/publish in another \
                publisher's space, look-alike directory, above the base, \
                other host); interleaved with RRDP updates through the \
                real scheduler, session resets, clock advances and \
                restarts. A reference model (map per publisher) predicts \
                accept/refuse of every delta (iff of the statement) and \
                of every publisher registration; after EVERY operation \
                the list reply and the publisher details of EVERY \
                publisher must equal the model, the served RRDP files \
                must be consistent and applicable by the client \
                population, and at quiescence the snapshot must equal \
                the publishers' content with nothing foreign below any \
                publisher's base. Non-trivial: at least one accepted \
                delta; distinct: distinct operation/result logs. Part c10fail: the same runs with a fifth of \
                the deltas sent while the k-th storage or file-system \
                mutation of the request (k 1-5) fails with an I/O \
                error: afterwards the list reply must be the content \
                from before or the content the whole delta produces, \
                never a part of it, and a positive reply means \
                applied.",
            assumptions: COMMON_ASSUMPTIONS,
        },
        PropSpec {
            id: "C12",
            parts: &[("c12", 160, 6000)],
            level: "fault_enumeration",
            tags: &["C12"],
            rule: "Each evaluation is one run in which the harness plays \
                two remote children (kidA, kidB) of the CA 'testbed' and \
                two publishers (pubA, pubB) of its publication server \
                with identity keys of its own, builds RFC 6492 / RFC 8181 \
                messages, signs them and hands the bytes to \
                CaManager::rfc6492 / RepositoryManager::rfc8181. The \
                simulated transport delivers: (i) the complete matrix \
                claimed sender {kidA, kidB, unknown} x signing key {A's, \
                B's, unregistered} x recipient {parent, other}; (ii) \
                issuance within and beyond the entitlement and a \
                revocation of the other child's key; (iii) 160 single-bit \
                flips spread over a valid list request and 160 over a \
                valid publish request (positions jittered by the seed); \
                (iv) requests signed with the old and the new key after \
                the child's identity was replaced, and after the parent \
                replaced its own identity; (v) publication through the \
                own and the other publisher's endpoint, into the own and \
                the other's space, with the own, the other's, an \
                unregistered and a replaced key. A request is acted upon \
                iff its signature validates under the certificate \
                registered for the claimed sender; a corrupted message \
                may only be acted upon if it still decodes to the \
                identical request; every refusal leaves a digest of the \
                parent's version, child records, stored object set and \
                repository content unchanged; replies must validate \
                under the server's current identity key; list and \
                issuance replies stay within the sender's entitlement / \
                base URI. distinct_nontrivial counts distinct case \
                labels exercised.",
            assumptions: COMMON_ASSUMPTIONS,
        },
        PropSpec {
            id: "C15",
            parts: &[("c15", 192, 4000), ("c15host", 64, 1000)],
            level: "fault_enumeration",
            tags: &["C15"],
            rule: "Each evaluation is one run of 2-4 signing rounds on an \
                instance with a local trust-anchor proxy and signer and \
                three children of the trust anchor (testbed, t1, t2). \
                Per round one or both harness children take a key-roll \
                step (certificate request or revocation request, so \
                rounds carry 1-2 concurrent child requests); the harness \
                is the courier: it obtains the proxy's signed request, \
                lets the signer process it (through a cfg-gated entry \
                point) and returns the signed response. Before the \
                genuine message it delivers to the signer: the request \
                signed with a foreign key, with the clear-text nonce \
                changed and with the child requests removed after \
                signing; after it: the same request again and the \
                request of the previous round. To the proxy: a second \
                make-request while one is open, the response of the \
                previous round (stale nonce), the right content signed \
                with a foreign key, a response whose clear text was \
                altered after signing, one with a corrupted signed \
                message, and after acceptance the same response again. \
                Every such message must be refused and leave proxy state, \
                signer state (both without the version counter), the \
                number of signer exchanges and the repository content \
                unchanged; the genuine ones must be accepted; each \
                requesting child must then obtain its response; the \
                trust anchor's manifest number must never decrease; the \
                tree must be relying-party valid at the end. \
                distinct_nontrivial counts distinct case labels.",
            assumptions: COMMON_ASSUMPTIONS,
        },
        PropSpec {
            id: "C19",
            parts: &[("c19", 320, 6000), ("c19net", 160, 3000)],
            level: "exploration",
            tags: &["C19"],
            rule: "Each evaluation is one seeded history of 15-45 \
                operations biased towards what makes exchanges fail or \
                entries disappear: children removed at the parent, the \
                CA's publisher removed at the publication server, parents \
                removed, CAs deleted, suspension, entitlement changes, \
                key rolls, restarts. The outcome of every parent and \
                repository synchronisation attempt is derived from \
                Krill's log output (captured through the log facade: the \
                'Synchronize CA ..' line of the attempt and the 'Failed \
                to ..' line of the scheduler) - a path independent of the \
                status store - and after every operation and every \
                single background task the status view and the issues \
                view of every CA must show a failure exactly when the \
                most recent attempt failed; no entry may exist for a \
                removed parent, child or CA; at quiescence the list of \
                published objects in the status must equal what the \
                publication server holds for the CA after a successful \
                synchronisation, and the (local) parent must have a \
                success record for a child that just synchronised \
                successfully; at every restart and snapshot point the \
                status view of a runtime loaded afresh from the same \
                storage must equal the live one. Entitlements: before \
                every background task the harness notes which CAs have \
                open requests for which parent; after a synchronisation \
                that asked for the entitlements and succeeded, the \
                classes in the status view must equal what the parent CA \
                returns for that child (CertAuth::list on the parent's \
                instance: class names, resources, validity, issued \
                certificates), and after an attempt that failed or only \
                sent open requests the classes shown must be unchanged. \
                Part c19net runs the same oracle on two instances joined \
                by the simulated network (CAs on either instance with \
                parents and repository on the other), where exchanges \
                also fail because requests or replies are lost, are \
                delivered twice, the other instance is down or the link \
                is cut. Non-trivial/distinct as for C01.",
            assumptions: COMMON_ASSUMPTIONS,
        },
        PropSpec {
            id: "C16",
            parts: &[("c12", 160, 6000), ("c03", 240, 3000), ("netfaults", 48, 1000)],
            level: "exploration",
            tags: &["C16"],
            rule: "Same runs as C12; every call into the endpoints runs \
                under catch_unwind with Krill's process::exit calls turned \
                into unwinds. Inputs: all C12 messages including the 320 \
                bit flips; 22 structured-garbage contents (empty, binary, \
                unclosed XML, wrong version/type, missing/huge/odd \
                sender, entity declaration, 5000-deep nesting, 12 seeded \
                byte mutations of a valid message) delivered raw AND as \
                the content of a CMS validly signed by a registered \
                child/publisher to both endpoints; 40 truncations / \
                insertions / deletions / length-byte overwrites of a \
                valid CMS; and about 250 API request bodies (ROA, ASPA, \
                BGPsec and child-update JSON: hand-written edge cases - \
                out-of-range numbers, impossible prefixes, reversed \
                ranges, empty and 'inherit' resources, control \
                characters - plus seeded byte mutations of valid wire \
                bodies) decoded with serde into the API types and, if \
                they decode, handed to the manager call. No panic, no \
                exit; a refused input leaves configuration and published \
                content unchanged; background work still runs afterwards. Parts c03 and netfaults: the removal-heavy \
                histories and the two-instance histories over the faulty \
                network, in which children, parents and publishers \
                exchange real protocol messages in every reachable \
                state (classes dropped at the parent, keys already \
                revoked, duplicates, replies lost); any panic or \
                daemon exit while an operation or a background task \
                processes such an exchange counts. The numeric path \
                segments of the history and stale-publisher routes are \
                passed with extreme values to the manager calls their \
                handlers make.",
            assumptions: COMMON_ASSUMPTIONS,
        },
        PropSpec {
            id: "C11",
            parts: &[("c11", 320, 6000), ("c11cuts", 24, 320)],
            level: "exploration",
            tags: &["C11"],
            rule: "Two kinds of evaluation. (1) c11: one seeded history of \
                20-60 operations biased towards publication (ROA/ASPA/BGPsec \
                changes, key rolls, re-publication), explicit RRDP session \
                resets, restarts with another retention configuration \
                and clock advances, on a per-run drawn retention \
                configuration (min/max number, min/max age, update \
                interval, archive). After every API operation and after \
                every single background task a simulated client \
                population parses notification.xml, the snapshot and all \
                listed deltas with the rpki RRDP parser and checks: files \
                exist with the stated hashes and carry the stated \
                session/serial; the deltas form a contiguous run ending \
                at the serial and do not outnumber the configured \
                maximum; the serial grows by at most one per step, the \
                session changes only on a reset and then restarts at 1 \
                without deltas; a serial once seen keeps its content; \
                EVERY earlier serial of the session the population has \
                seen reaches exactly the current snapshot by applying the \
                delta chain strictly (publish needs absence, update and \
                withdraw need the stated hash) whenever the chain is \
                contiguous from it; the rsync tree equals the snapshot; \
                at quiescence the snapshot equals the repository \
                content. (2) c11cuts: one (operation, state) pair as for \
                C08 with cuts only in the file-system mutations of the \
                publication server (directory creation, file creation, \
                write, notification rename, clean-up, the three rsync \
                directory renames/removals), each realised as crash, \
                as I/O error and (for writes) as a torn write followed \
                by a crash; right after the cut the notification must \
                name existing files with the stated hashes and clients \
                of the previous serial must be able to follow; after \
                background work (and the hourly retry) RRDP snapshot and \
                rsync tree must equal the repository content; a later \
                forced re-publication must produce a new serial that is \
                served completely. distinct_nontrivial counts distinct \
                event-log fingerprints of histories plus distinct cut \
                triples (operation kind | site class | variant).",
            assumptions: COMMON_ASSUMPTIONS,
        },
        PropSpec {
            id: "C07",
            parts: &[("c07", 400, 8000), ("c18", 96, 2000), ("c07fail", 480, 6000)],
            level: "exploration",
            tags: &["C07"],
            rule: "Each evaluation is one seeded concurrent scenario on the \
                real runtime (disk or memory back-end by seed): a \
                sequential prefix of 4-10 operations builds a small \
                delegation tree; then 2-3 threads issue 1-3 API commands \
                each (ROA/ASPA deltas, child entitlement and suspension \
                changes, key-roll steps, bulk refresh / re-publication; \
                accepted, refused and no-op ones; generated against the \
                same reached state, so they often target the same CA) \
                while a reader thread keeps reading every CA. The threads \
                are real OS threads released one at a time by the \
                cooperative scheduler at Krill's storage and lock switch \
                points (uniform random with a drawn preemption rate, or \
                PCT with 1-4 priority change points); the decision list \
                is recorded. Checked: every CA's versions are consecutive \
                and the stored command-N records are exactly 0..version; \
                a reader never sees a version go back or beyond the final \
                one and never two contents for one version; and a serial \
                witness: the same prefix is built again and the calls are \
                issued one at a time in their commit order (order of the \
                command-record stores in the trace) - per-call results, \
                the multiset of new audit records per CA and the \
                normalised observable state after quiescence must be \
                equal. Non-trivial: at least one accepted command; \
                distinct: distinct (decision list, operations, results) \
                fingerprints. Part c07fail: bursts of 2-4 calls against one \
                CA without reads in between, one call per burst with \
                its k-th storage mutation failing (pre-save writes of \
                object set and task queue, the command, post-save \
                writes); after every burst the stored command numbers \
                of every CA must be 0..n without a gap, the live \
                version must be n, refused calls must have left one \
                error record and acknowledged ones at most one record \
                each, and live state = replayed state.",
            assumptions: CONC_ASSUMPTIONS,
        },
        PropSpec {
            id: "C18",
            parts: &[("c18", 320, 8000), ("c07", 96, 2000)],
            level: "exploration",
            tags: &["C18", "LIVENESS"],
            rule: "Each evaluation is one seeded concurrent scenario as \
                for C07 but with 2-4 API threads next to a scheduler \
                thread that runs the real background tasks (parent and \
                repository synchronisation, RRDP updates, ...) through the \
                real scheduler loop while the calls are in flight; parent \
                and child are hosted by the same instance. Checked: no \
                deadlock (every unfinished thread blocked on a lock with \
                no progress possible), completion within 400000 \
                scheduling steps, every call returns, no panic and no \
                daemon exit on any thread; after background work has \
                caught up the tree is relying-party valid; and, whenever \
                the per-call results equal those of the serial witness \
                (the same calls one at a time in commit order, then all \
                tasks), the normalised observable state must equal the \
                witness's (results that differ because a task ran in \
                between are counted as undecided, not as violations). \
                Non-trivial/distinct as for C07.",
            assumptions: CONC_ASSUMPTIONS,
        },
        PropSpec {
            id: "C05",
            parts: &[("c05", 800, 8000)],
            level: "exploration",
            tags: &["C05"],
            rule: "Each evaluation is one seeded history in which about a \
                third of the configuration requests are deliberately \
                invalid in one way (prefix or AS not held or only partially \
                held, invalid max length, duplicate with the same comment, \
                removal of an absent entry, empty/duplicate providers, \
                customer as provider, corrupted CSR signature, child \
                entitled to nothing or to resources the parent lacks), \
                issued against whatever CA state the history has reached. \
                For every ROA/ASPA/BGPsec/child request the model's verdict \
                (computed from the certificates the CA has received) must \
                equal Krill's; a refusal must leave configuration views, \
                the CA's stored object set and the repository \
                byte-identical and add exactly one error record to the \
                audit log; an acceptance must be fully visible. \
                Non-trivial/distinct as for C01.",
            assumptions: COMMON_ASSUMPTIONS,
        },
    ]
}

pub const CONC_ASSUMPTIONS: &[&str] = &[
    "interleavings are explored at the granularity of Krill's storage \
     operations and lock acquisitions (cfg-gated switch points); code \
     between two switch points runs atomically, so data races on plain \
     memory are out of reach",
    "the async facade runs its closures inline on the calling thread \
     (hook `inline_pool`); the tokio worker pool and hyper are not part of \
     the simulation",
    "the serial witness orders calls by the store of their command record; \
     calls that store no command are ordered by their start",
    "rpki-rs decoding and validation are correct (trusted base of the \
     relying-party walk)",
    "RSA keys come from a committed pool; OpenSSL's DRBG is not seeded",
];

pub const COMMON_ASSUMPTIONS: &[&str] = &[
    "rpki-rs decoding and validation are correct (trusted base of the \
     relying-party walk)",
    "RSA keys come from a committed pool instead of being generated; key \
     generation itself is not exercised",
    "OpenSSL's DRBG is not seeded (serial numbers, RRDP random path parts); \
     these values never steer control flow and are normalised in logs",
    "the HTTP/TLS/auth layer and the CLI are not run; operations enter \
     through the same KrillManager methods the HTTP handlers call",
    "sampling, not proof: a clean batch is evidence over the explored seeds \
     only",
];

pub const CUT_ASSUMPTIONS: &[&str] = &[
    "a crash is modelled as an unwind out of the fault hook followed by \
     dropping every in-memory object and reopening the data directory: the \
     observable outcome of kill -9; power-loss semantics (un-fsynced data \
     lost) are out of scope, the disk back-end does not fsync at all",
    "the (operation, state) pairs are sampled by seed; within a pair the \
     cut points are enumerated exhaustively up to 24 and sampled beyond",
    "rpki-rs decoding and validation are correct (trusted base of the \
     relying-party walk)",
    "RSA keys come from a committed pool; OpenSSL's DRBG is not seeded",
];

fn spec(id: &str) -> Option<PropSpec> {
    specs().into_iter().find(|s| s.id.eq_ignore_ascii_case(id))
}

//------------ Dispatch ------------------------------------------------------

/// Runs one seeded execution of a profile.
pub fn run_profile(
    name: &str, seed: u64, replay: Option<&ReplayFile>,
) -> RunReport {
    if let Some(profile) = crate::profiles::profile(name) {
        return runs::run_history(
            seed, &profile, replay.map(|r| r.ops.clone())
        )
    }
    if let Some(profile) = crate::cuts::profile(name) {
        let only = replay.and_then(|r| {
            let k = r.extra.get("cut")?.as_u64()?;
            let variant = r.extra.get("variant")?.as_str()?.to_string();
            Some((k, variant))
        });
        return crate::cuts::run_pair_only(seed, &profile, only)
    }
    if let Some(profile) = crate::conc::profile(name) {
        // A replay file carries the scheduler's decision list.
        let decisions: Option<Vec<u16>> = replay.and_then(|r| {
            r.extra.get("decisions")?.as_array().map(|list| {
                list.iter().filter_map(|d| d.as_u64().map(|d| d as u16))
                    .collect()
            })
        });
        let res = std::thread::Builder::new()
            .stack_size(32 * 1024 * 1024)
            .spawn(move || crate::conc::run(seed, &profile, decisions))
            .expect("spawn").join();
        return match res {
            Ok(report) => report,
            Err(p) => RunReport {
                seed,
                profile: name.to_string(),
                harness_error: Some(crate::util::panic_message(&p)),
                ..Default::default()
            }
        }
    }
    if name == "c12" {
        let res = std::thread::Builder::new()
            .stack_size(64 * 1024 * 1024)
            .spawn(move || crate::c12::run(seed))
            .expect("spawn").join();
        return match res {
            Ok(report) => report,
            Err(p) => RunReport {
                seed,
                profile: name.to_string(),
                harness_error: Some(crate::util::panic_message(&p)),
                ..Default::default()
            }
        }
    }
    if name == "c15" {
        let res = std::thread::Builder::new()
            .stack_size(64 * 1024 * 1024)
            .spawn(move || crate::c15::run(seed))
            .expect("spawn").join();
        return match res {
            Ok(report) => report,
            Err(p) => RunReport {
                seed,
                profile: name.to_string(),
                harness_error: Some(crate::util::panic_message(&p)),
                ..Default::default()
            }
        }
    }
    if name == "c15host" {
        let res = std::thread::Builder::new()
            .stack_size(64 * 1024 * 1024)
            .spawn(move || crate::c15h::run(seed))
            .expect("spawn").join();
        return match res {
            Ok(report) => report,
            Err(p) => RunReport {
                seed,
                profile: name.to_string(),
                harness_error: Some(crate::util::panic_message(&p)),
                ..Default::default()
            }
        }
    }
    if name == "c10" || name == "c10fail" {
        let faults = name == "c10fail";
        let res = std::thread::Builder::new()
            .stack_size(32 * 1024 * 1024)
            .spawn(move || crate::c10::run_with(seed, faults))
            .expect("spawn").join();
        return match res {
            Ok(report) => report,
            Err(p) => RunReport {
                seed,
                profile: name.to_string(),
                harness_error: Some(crate::util::panic_message(&p)),
                ..Default::default()
            }
        }
    }
    if name == "c07fail" {
        let res = std::thread::Builder::new()
            .stack_size(32 * 1024 * 1024)
            .spawn(move || crate::c07f::run(seed))
            .expect("spawn").join();
        return match res {
            Ok(report) => report,
            Err(p) => RunReport {
                seed,
                profile: name.to_string(),
                harness_error: Some(crate::util::panic_message(&p)),
                ..Default::default()
            }
        }
    }
    if name == "c09queue" {
        let res = std::thread::Builder::new()
            .stack_size(16 * 1024 * 1024)
            .spawn(move || crate::c09::run_queue(seed))
            .expect("spawn").join();
        return match res {
            Ok(report) => report,
            Err(p) => RunReport {
                seed,
                profile: name.to_string(),
                harness_error: Some(crate::util::panic_message(&p)),
                ..Default::default()
            }
        }
    }
    RunReport {
        seed,
        harness_error: Some(format!("unknown profile {name}")),
        ..Default::default()
    }
}

//------------ Worker --------------------------------------------------------

pub fn worker(profile: &str, first: u64, count: u64, stride: u64) -> i32 {
    let stdout = std::io::stdout();
    for i in 0..count {
        let seed = first + i * stride;
        let report = run_profile(profile, seed, None);
        let line = serde_json::to_string(&report).unwrap();
        let mut out = stdout.lock();
        let _ = writeln!(out, "{line}");
        let _ = out.flush();
    }
    0
}

pub fn run_one(profile: &str, seed: u64) -> i32 {
    let report = run_profile(profile, seed, None);
    println!("seed {} fingerprint {}", report.seed, report.fingerprint);
    println!("config {}", report.config);
    for (i, (op, res)) in report.ops.iter().zip(&report.results).enumerate() {
        println!("{:3} {} -> {}", i + 1, serde_json::to_string(op).unwrap(), res);
    }
    if report.ops.is_empty() {
        for line in &report.results {
            println!("    {line}");
        }
    }
    println!("stats {:?}", report.stats);
    println!(
        "sim_secs {} kv {} fs {} caught_up {} tasks {} wall_ms {}",
        report.sim_secs, report.kv_mutations, report.fs_mutations,
        report.caught_up_checks, report.tasks_run, report.wall_ms
    );
    if let Some(err) = &report.harness_error {
        println!("HARNESS ERROR: {err}");
        return 2
    }
    for v in &report.violations {
        println!("VIOLATION {} {} step {}: {}", v.prop, v.rule, v.step, v.detail);
    }
    if report.violations.is_empty() { 0 } else { 1 }
}

//------------ Known findings ------------------------------------------------

#[derive(Clone, Debug, Deserialize, Serialize)]
pub struct Finding {
    /// "known" or "fixed"
    pub status: String,
    pub property: String,
    pub rule: String,
    /// Substring that must occur in the violation detail (may be empty).
    #[serde(default)]
    pub detail_contains: String,
    pub description: String,
    #[serde(default)]
    pub commit: String,
}

pub fn load_findings() -> Vec<Finding> {
    let path = format!("{VERIF_DIR}/known-findings.json");
    match std::fs::read_to_string(&path) {
        Ok(text) => serde_json::from_str(&text).unwrap_or_else(|e| {
            eprintln!("HARNESS-ERROR: cannot parse {path}: {e}");
            std::process::exit(2);
        }),
        Err(_) => Vec::new(),
    }
}

fn matching_finding<'a>(
    findings: &'a [Finding], prop: &str, v: &Violation,
) -> Option<&'a Finding> {
    findings.iter().find(|f| {
        f.status == "known"
            && f.property.eq_ignore_ascii_case(prop)
            && (f.rule == v.rule
                || v.rule.strip_prefix(f.rule.as_str())
                    .map(|rest| rest.starts_with('@')).unwrap_or(false))
            && (f.detail_contains.is_empty()
                || v.detail.contains(&f.detail_contains))
    })
}

//------------ Check ---------------------------------------------------------

fn workers() -> u64 {
    let n = std::thread::available_parallelism().map(|n| n.get()).unwrap_or(4);
    crate::util::env_u64("VERIF_WORKERS", std::cmp::min(n, 16) as u64)
}

/// Spawns worker processes for a profile and collects their reports.
pub fn fan_out(profile: &str, base_seed: u64, runs: u64) -> Vec<RunReport> {
    let w = std::cmp::max(1, std::cmp::min(workers(), runs));
    let exe = std::env::current_exe().expect("current exe");
    let mut children = Vec::new();
    for i in 0..w {
        let count = runs / w + if i < runs % w { 1 } else { 0 };
        if count == 0 {
            continue
        }
        let child = Command::new(&exe)
            .arg("worker").arg(profile)
            .arg((base_seed + i).to_string())
            .arg(count.to_string())
            .arg(w.to_string())
            .stdout(Stdio::piped())
            .stderr(Stdio::inherit())
            .spawn().expect("spawn worker");
        children.push(child);
    }
    let mut handles = Vec::new();
    for mut child in children {
        let stdout = child.stdout.take().unwrap();
        handles.push(std::thread::spawn(move || {
            let mut reports = Vec::new();
            for line in BufReader::new(stdout).lines().map_while(Result::ok) {
                match serde_json::from_str::<RunReport>(&line) {
                    Ok(rep) => reports.push(rep),
                    Err(err) => {
                        eprintln!("worker output not parsable: {err}: {line}");
                    }
                }
            }
            let status = child.wait().expect("wait worker");
            (reports, status)
        }));
    }
    let mut all = Vec::new();
    for handle in handles {
        let (reports, status) = handle.join().expect("join collector");
        if !status.success() {
            eprintln!(
                "HARNESS-ERROR: worker for {profile} exited with {status}"
            );
            std::process::exit(2);
        }
        all.extend(reports);
    }
    all.sort_by_key(|r| r.seed);
    all
}

pub fn check(prop: &str, tier: &str) -> i32 {
    let t0 = std::time::Instant::now();
    let Some(spec) = spec(prop) else {
        eprintln!("HARNESS-ERROR: unknown property {prop}");
        return 2
    };
    if tier != "quick" && tier != "thorough" {
        eprintln!("HARNESS-ERROR: tier must be quick or thorough");
        return 2
    }
    let seed = crate::util::env_u64("VERIF_SEED", 1);
    println!("VERIF_SEED={seed} property={} tier={tier}", spec.id);
    let findings = load_findings();
    let scale = crate::util::env_u64("VERIF_SCALE_PCT", 100);

    let mut reports: Vec<RunReport> = Vec::new();
    for (i, (profile, quick, thorough)) in spec.parts.iter().enumerate() {
        let runs = if tier == "quick" { *quick } else { *thorough };
        let runs = std::cmp::max(1, runs * scale / 100);
        let base = seed * 1_000_000_000 + (i as u64) * 10_000_000;
        let part = fan_out(profile, base, runs);
        if part.len() as u64 != runs {
            eprintln!(
                "HARNESS-ERROR: profile {profile}: {} of {runs} runs reported",
                part.len()
            );
            return 2
        }
        reports.extend(part);
    }

    // Harness errors are never violations.
    let errors: Vec<&RunReport> = reports.iter()
        .filter(|r| r.harness_error.is_some()).collect();
    if let Some(first) = errors.first() {
        eprintln!(
            "HARNESS-ERROR: {} run(s) failed in the harness, e.g. seed {} \
             ({}): {}",
            errors.len(), first.seed, first.profile,
            first.harness_error.as_ref().unwrap()
        );
        return 2
    }

    // Aggregate.
    let mut stats: BTreeMap<String, u64> = BTreeMap::new();
    let mut fired: BTreeMap<String, u64> = BTreeMap::new();
    let mut probes: BTreeMap<String, u64> = BTreeMap::new();
    let mut distinct = BTreeSet::new();
    let mut sim_secs: i64 = 0;
    let mut kv = 0u64;
    let mut fs = 0u64;
    let mut caught_up = 0u64;
    let mut tasks = 0u64;
    let mut ops_total = 0u64;
    for r in &reports {
        for (k, v) in &r.stats { *stats.entry(k.clone()).or_insert(0) += v; }
        for (k, v) in &r.fired { *fired.entry(k.clone()).or_insert(0) += v; }
        for (k, v) in &r.probes { *probes.entry(k.clone()).or_insert(0) += v; }
        if !r.extra_sites.is_empty() {
            for site in &r.extra_sites {
                distinct.insert(site.clone());
            }
        }
        else if r.nontrivial() {
            distinct.insert(r.fingerprint.clone());
        }
        sim_secs += r.sim_secs;
        kv += r.kv_mutations;
        fs += r.fs_mutations;
        caught_up += r.caught_up_checks;
        tasks += r.tasks_run;
        ops_total += r.ops.len() as u64;
    }

    // Violations of this property, grouped by rule.
    let mut by_rule: BTreeMap<String, Vec<(&RunReport, &Violation)>>
        = BTreeMap::new();
    let mut other_props: BTreeMap<String, u64> = BTreeMap::new();
    for r in &reports {
        for v in &r.violations {
            if spec.tags.contains(&v.prop.as_str()) {
                by_rule.entry(v.rule.clone()).or_default().push((r, v));
            }
            else {
                *other_props.entry(v.prop.clone()).or_insert(0) += 1;
            }
        }
    }

    let mut unknown = 0u64;
    let mut known_lines = BTreeSet::new();
    let mut violation_lines = Vec::new();
    let mut violations_total = 0u64;
    for (rule, hits) in &by_rule {
        violations_total += hits.len() as u64;
        // Split hits into known and unknown.
        let mut unknown_hits = Vec::new();
        for (r, v) in hits {
            match matching_finding(&findings, spec.id, v) {
                Some(f) => {
                    known_lines.insert(format!(
                        "KNOWN-FINDING: property={} rule={} {}",
                        spec.id, f.rule, f.description
                    ));
                }
                None => unknown_hits.push((*r, *v)),
            }
        }
        if let Some((r, v)) = unknown_hits.first() {
            unknown += unknown_hits.len() as u64;
            let path = write_replay(spec.id, r, v);
            violation_lines.push(format!(
                "VIOLATION property={} replay={path}", spec.id
            ));
            eprintln!(
                "violation {} rule={rule} seed={} ({} run(s)): {}",
                spec.id, r.seed, unknown_hits.len(), v.detail
            );
        }
    }
    for line in &known_lines {
        println!("{line}");
    }
    for line in &violation_lines {
        println!("{line}");
    }

    // Evidence.
    let wall = t0.elapsed().as_secs_f64();
    let samples: Vec<serde_json::Value> = reports.iter()
        .filter(|r| r.nontrivial()).take(3).map(|r| {
            json!({
                "seed": r.seed,
                "profile": r.profile,
                "config": r.config,
                "operations": r.ops.iter().zip(&r.results).take(40)
                    .map(|(op, res)| json!({"op": op, "result": res}))
                    .collect::<Vec<_>>(),
                "fingerprint": r.fingerprint,
            })
        }).collect();
    let zero_probes: Vec<String> = expected_probes(spec.id).iter()
        .filter(|p| {
            stats.get(**p).copied().unwrap_or(0) == 0
                && probes.get(**p).copied().unwrap_or(0) == 0
        }).map(|p| p.to_string()).collect();
    for p in &zero_probes {
        eprintln!("warning: probe {p} stayed at 0 in this run");
    }
    let evaluations = reports.len() as u64;
    let evidence = json!({
        "property_id": spec.id,
        "tier": tier,
        "seed": seed,
        "level": spec.level,
        "coverage": {
            "evaluations": evaluations,
            "distinct_nontrivial": distinct.len(),
            "rule": spec.rule,
            "samples": samples,
            "operations_executed": ops_total,
            "background_tasks_run": tasks,
            "caught_up_checks": caught_up,
            "kv_mutations_observed": kv,
            "fs_mutations_observed": fs,
            "simulated_seconds": sim_secs,
            "simulated_days": sim_secs as f64 / 86400.0,
            "runs_per_hour": evaluations as f64 / wall * 3600.0,
            "faults_fired": fired,
            "probes": probes,
            "counters": stats,
            "probes_at_zero": zero_probes,
            "violations_of_other_properties_seen": other_props,
            "known_findings_hit": known_lines.len(),
            "components": components(),
            "workers": workers(),
        },
        "assumptions": spec.assumptions,
        "wall_s": wall,
        "violations": violations_total,
    });
    let dir = format!("{}/evidence", out_dir());
    let _ = std::fs::create_dir_all(&dir);
    let path = format!("{dir}/{}.json", spec.id);
    if let Err(err) = std::fs::write(
        &path, serde_json::to_string_pretty(&evidence).unwrap()
    ) {
        eprintln!("HARNESS-ERROR: cannot write {path}: {err}");
        return 2
    }
    println!(
        "{}: {} runs, {} distinct non-trivial, {} violation(s) ({} not \
         known), {:.1}s",
        spec.id, evaluations, distinct.len(), violations_total, unknown, wall
    );
    if unknown > 0 { 1 } else { 0 }
}

fn expected_probes(_id: &str) -> Vec<&'static str> {
    Vec::new()
}

pub fn components() -> serde_json::Value {
    json!({
        "real": [
            "CaManager / CertAuth aggregate / resource classes / key state \
             machine", "ROA, ASPA, BGPsec derivation", "CaObjectsStore \
             (manifest, CRL)", "RepositoryManager / RepositoryAccess / \
             RepositoryContent / RrdpServer / RsyncdStore incl. file writers",
            "TrustAnchorProxy and TrustAnchorSigner", "AggregateStore, \
             WalStore, KeyValueStore (memory and disk back-ends incl. their \
             locks)", "Queue, TaskQueue, scheduler loop and process_task",
            "KrillManager facade (inline on the calling thread)",
            "CMS signing and validation, certificate/ROA/manifest/CRL signing \
             (OpenSSL, rpki-rs)", "Config::read_config + process()"
        ],
        "stubbed": [
            "RSA key generation (key pool)", "wall clock (virtual)",
            "OS entropy via getrandom (seeded)", "HTTP client (simulated \
             transport)", "thread scheduling (cooperative, seeded)"
        ],
        "not_run": [
            "HTTP server, TLS, authentication/authorisation, OpenID Connect, \
             CLI", "HSM signers", "RIS-whois download"
        ]
    })
}

fn write_replay(prop: &str, r: &RunReport, v: &Violation) -> String {
    let dir = format!("{}/replays", out_dir());
    let _ = std::fs::create_dir_all(&dir);
    // Minimise history-style runs.
    let mut ops = r.ops.clone();
    let original = ops.len();
    if let Some(profile) = crate::profiles::profile(&r.profile) {
        let budget = crate::util::env_u64("VERIF_MINIMISE_BUDGET", 60) as usize;
        let (min, tries) = runs::minimise(
            r.seed, &profile, ops.clone(), &v.prop, &v.rule, budget
        );
        eprintln!(
            "minimised {} -> {} operations in {tries} replays",
            original, min.len()
        );
        ops = min;
    }
    // What besides the seed pins the failing execution down.
    let mut extra = serde_json::Value::Null;
    let mut kind = "history";
    if crate::cuts::profile(&r.profile).is_some() {
        kind = "cut_point";
        let variant = v.detail.split(' ').next().unwrap_or("").to_string();
        if ["crash", "fail", "torn", "full", "crash2"].contains(&variant.as_str()) {
            extra = serde_json::json!({ "cut": v.step, "variant": variant });
        }
    }
    else if crate::conc::profile(&r.profile).is_some() {
        kind = "schedule";
        extra = serde_json::json!({ "decisions": r.extra_decisions });
    }
    else if crate::profiles::profile(&r.profile).is_none() {
        kind = "seeded_run";
    }
    let replay = ReplayFile {
        property: prop.to_string(),
        rule: v.rule.clone(),
        detail: v.detail.clone(),
        profile: r.profile.clone(),
        seed: r.seed,
        ops,
        original_ops: original,
        fingerprint: r.fingerprint.clone(),
        kind: kind.to_string(),
        extra,
    };
    let path = format!("{dir}/{prop}-{}-{}.json", r.seed, v.rule);
    let _ = std::fs::write(
        &path, serde_json::to_string_pretty(&replay).unwrap()
    );
    path
}

pub fn replay(path: &str) -> i32 {
    let text = match std::fs::read_to_string(path) {
        Ok(text) => text,
        Err(err) => {
            eprintln!("HARNESS-ERROR: cannot read {path}: {err}");
            return 2
        }
    };
    let file: ReplayFile = match serde_json::from_str(&text) {
        Ok(file) => file,
        Err(err) => {
            eprintln!("HARNESS-ERROR: cannot parse {path}: {err}");
            return 2
        }
    };
    let report = run_profile(&file.profile, file.seed, Some(&file));
    if let Some(err) = &report.harness_error {
        eprintln!("HARNESS-ERROR: {err}");
        return 2
    }
    for (i, (op, res)) in report.ops.iter().zip(&report.results).enumerate() {
        println!("{:3} {} -> {}", i + 1, serde_json::to_string(op).unwrap(), res);
    }
    let mut reproduced = false;
    for v in &report.violations {
        println!("violation {} {} step {}: {}", v.prop, v.rule, v.step, v.detail);
        if v.rule == file.rule {
            reproduced = true;
        }
    }
    if reproduced {
        println!("VIOLATION property={} replay={path}", file.property);
        1
    }
    else {
        println!("replay of {path} did not reproduce rule {}", file.rule);
        0
    }
}

//------------ Determinism proof ---------------------------------------------

/// Runs `count` seeds twice in separate processes, once one seed per process
/// and once all in one process, and compares fingerprints.
pub fn determinism(profile: &str, first: u64, count: u64) -> i32 {
    let a = fan_out(profile, first, count);
    // Second pass: a single worker running all the seeds in sequence.
    let exe = std::env::current_exe().expect("current exe");
    let out = Command::new(&exe)
        .arg("worker").arg(profile)
        .arg(first.to_string()).arg(count.to_string()).arg("1")
        .stderr(Stdio::inherit())
        .output().expect("run worker");
    let mut b = Vec::new();
    for line in String::from_utf8_lossy(&out.stdout).lines() {
        if let Ok(rep) = serde_json::from_str::<RunReport>(line) {
            b.push(rep);
        }
    }
    b.sort_by_key(|r| r.seed);
    if a.len() != b.len() {
        eprintln!(
            "HARNESS-ERROR: determinism: {} vs {} reports", a.len(), b.len()
        );
        return 2
    }
    let mut bad = 0;
    for (x, y) in a.iter().zip(&b) {
        if x.seed != y.seed || x.fingerprint != y.fingerprint {
            bad += 1;
            eprintln!(
                "determinism mismatch: seed {} fingerprints {} vs {}",
                x.seed, x.fingerprint, y.fingerprint
            );
        }
    }
    if bad > 0 {
        eprintln!("HARNESS-ERROR: {bad} of {count} seeds are not reproducible");
        return 2
    }
    println!("determinism: {count} seeds x 2 executions agree ({profile})");
    0
}
