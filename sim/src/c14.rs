//! C14: manifests, CRLs and signed objects are refreshed in time with rising
//! numbers.

use std::collections::BTreeMap;
use crate::history::Runner;
use crate::hooks;
use crate::objsets::{self, KeySet};
use crate::rp::RpResult;
use crate::seams;

#[derive(Clone, Debug)]
struct SetSnap {
    number: u64,
    next_update: i64,
    manifest_hash: String,
    /// name -> (serial, expires, content hash)
    products: BTreeMap<String, (String, i64, String)>,
}

#[derive(Default)]
pub struct State {
    pub last_entitlement_change: usize,
    /// (ca, rcn, key) -> snapshot at the previous instant.
    snaps: BTreeMap<(String, String, String), SetSnap>,
    /// (ca, rcn, key) -> highest number seen.
    numbers: BTreeMap<(String, String, String), u64>,
    pub due_reissues: u64,
    pub not_due_unchanged: u64,
    pub renewals: u64,
}

fn snap(set: &KeySet) -> SetSnap {
    SetSnap {
        number: set.number,
        next_update: set.next_update,
        manifest_hash: crate::util::sha256_hex(&set.manifest),
        products: set.products.iter().map(|(name, p)| {
            (
                name.clone(),
                (p.serial.clone(), p.expires, crate::util::sha256_hex(&p.bytes))
            )
        }).collect(),
    }
}

fn collect(r: &Runner) -> BTreeMap<(String, String, String), (SetSnap, String)> {
    let mut out = BTreeMap::new();
    for ca in r.model.cas.values() {
        if !r.world.inst(ca.inst).is_up() {
            continue
        }
        let classes = hooks::with_faults_suspended(|| {
            objsets::read(r.world.inst(ca.inst).rt(), &ca.name)
        });
        for class in classes {
            for set in &class.sets {
                out.insert(
                    (ca.name.clone(), class.rcn.clone(), set.key_id.clone()),
                    (snap(set), set.role.clone())
                );
            }
        }
    }
    out
}

/// Records the state of all sets (called after every operation so that the
/// next maintenance run has a "before").
pub fn instant(r: &mut Runner) {
    let now = collect(r);
    check_numbers(r, &now);
    r.ext.c14.snaps = now.into_iter().map(|(k, (s, _))| (k, s)).collect();
}

fn check_numbers(
    r: &mut Runner,
    now: &BTreeMap<(String, String, String), (SetSnap, String)>,
) {
    for (key, (snap, _)) in now {
        let prev = r.ext.c14.numbers.get(key).copied().unwrap_or(0);
        if snap.number < prev {
            r.violation(
                "C14", "number_decreased",
                format!(
                    "CA {} class {} key {}: manifest/CRL number went from \
                     {prev} to {}", key.0, key.1, key.2, snap.number
                )
            );
        }
        r.ext.c14.numbers.insert(key.clone(), std::cmp::max(prev, snap.number));
    }
}

/// Judges the task that just ran if it was a maintenance run.
pub fn after_task(r: &mut Runner) {
    let task = hooks::state().last_task.clone();
    let now = collect(r);
    check_numbers(r, &now);
    let now_secs = seams::now_secs();
    let timing = r.world.inst(0).cfg.timing.clone();
    if task.ends_with("all_cas_republish_if_needed") {
        let margin = timing.publish_hours_before_next as i64 * 3600;
        // Which classes had something due?
        let mut class_due: BTreeMap<(String, String), bool> = BTreeMap::new();
        for (key, before) in &r.ext.c14.snaps {
            let due = now_secs > before.next_update - margin;
            let entry = class_due.entry((key.0.clone(), key.1.clone()))
                .or_insert(false);
            *entry = *entry || due;
        }
        let before_all = r.ext.c14.snaps.clone();
        for (key, before) in &before_all {
            let Some((after, role)) = now.get(key) else { continue };
            let due = now_secs > before.next_update - margin;
            if due {
                r.ext.c14.due_reissues += 1;
                if after.number != before.number + 1 {
                    r.violation(
                        "C14", "due_not_reissued",
                        format!(
                            "CA {} class {} key {} ({role}): next update {} \
                             is within {} h of now {} but the republish run \
                             left number {} -> {}",
                            key.0, key.1, key.2, before.next_update,
                            timing.publish_hours_before_next, now_secs,
                            before.number, after.number
                        )
                    );
                }
                else if after.next_update <= now_secs {
                    r.violation(
                        "C14", "reissued_already_stale",
                        format!(
                            "CA {} class {} key {}: re-issued with next \
                             update {} <= now {now_secs}",
                            key.0, key.1, key.2, after.next_update
                        )
                    );
                }
            }
            else if !class_due.get(&(key.0.clone(), key.1.clone()))
                .copied().unwrap_or(false)
            {
                r.ext.c14.not_due_unchanged += 1;
                if after.manifest_hash != before.manifest_hash {
                    r.violation(
                        "C14", "not_due_changed",
                        format!(
                            "CA {} class {} key {}: nothing was due in this \
                             class but the republish run changed the \
                             manifest (number {} -> {})",
                            key.0, key.1, key.2, before.number, after.number
                        )
                    );
                }
            }
            if before.products.keys().collect::<Vec<_>>()
                != after.products.keys().collect::<Vec<_>>()
            {
                r.violation(
                    "C14", "republish_changed_payloads",
                    format!(
                        "CA {} class {} key {}: the republish run changed \
                         the set of products", key.0, key.1, key.2
                    )
                );
            }
        }
    }
    else if task.ends_with("all_cas_renew_objects_if_needed") {
        let before_all = r.ext.c14.snaps.clone();
        for (key, before) in &before_all {
            let Some((after, _role)) = now.get(key) else { continue };
            if before.products.keys().collect::<Vec<_>>()
                != after.products.keys().collect::<Vec<_>>()
            {
                r.violation(
                    "C14", "renew_changed_payloads",
                    format!(
                        "CA {} class {} key {}: the renewal run changed the \
                         set of products: {:?} -> {:?}",
                        key.0, key.1, key.2,
                        before.products.keys().collect::<Vec<_>>(),
                        after.products.keys().collect::<Vec<_>>()
                    )
                );
                continue
            }
            for (name, (serial, expires, hash)) in &before.products {
                let weeks = if name.ends_with(".roa") {
                    timing.roa_reissue_weeks_before
                } else if name.ends_with(".asa") {
                    timing.aspa_reissue_weeks_before
                } else if name.starts_with("ROUTER-") {
                    timing.bgpsec_reissue_weeks_before
                } else {
                    continue // child CA certificates are the child's job
                };
                let threshold = now_secs + weeks as i64 * 7 * 86400;
                let Some((aserial, aexpires, ahash)) = after.products.get(name)
                else { continue };
                if *expires < threshold {
                    r.ext.c14.renewals += 1;
                    if aserial == serial || aexpires <= expires {
                        r.violation(
                            "C14", "expiring_not_renewed",
                            format!(
                                "CA {} class {}: {name} expires at {expires}, \
                                 within {weeks} week(s) of now {now_secs}, \
                                 but the renewal run left it as it was",
                                key.0, key.1
                            )
                        );
                    }
                }
                else if ahash != hash {
                    r.violation(
                        "C14", "not_expiring_renewed",
                        format!(
                            "CA {} class {}: {name} expires at {expires}, \
                             not within {weeks} week(s) of now {now_secs}, \
                             but the renewal run replaced it",
                            key.0, key.1
                        )
                    );
                }
            }
        }
    }
    r.ext.c14.snaps = now.into_iter().map(|(k, (s, _))| (k, s)).collect();
}

/// At quiescence: numbers on the decoded manifest and CRL agree, validity
/// windows contain the present (the RP walk reports stale ones).
pub fn at_caught_up(r: &mut Runner, _repo_inst: usize, rpres: &RpResult) {
    for pp in &rpres.pub_points {
        if pp.mft_number != pp.crl_number {
            r.violation(
                "C14", "numbers_disagree",
                format!(
                    "{}: manifest number {} but CRL number {}",
                    pp.mft_uri, pp.mft_number, pp.crl_number
                )
            );
        }
    }
    // "Re-issued and published": once background work has caught up the
    // repository holds, for every key, the manifest the CA has stored -
    // a re-issue that stays in the CA's object set only does not refresh
    // anything a relying party sees.
    let cas: Vec<crate::model::MCa> = r.model.cas.values()
        .filter(|c| {
            r.world.inst(c.inst).is_up() && !c.orphaned && c.has_repo
        }).cloned().collect();
    for mca in cas {
        let sets = crate::objsets::read(
            r.world.inst(mca.inst).rt(), &mca.name
        );
        for class in &sets {
            for set in &class.sets {
                let Some(pp) = rpres.pub_points.iter().find(|pp| {
                    pp.ca_key.to_string().eq_ignore_ascii_case(&set.key_id)
                }) else { continue };
                let published: Option<u128>
                    = pp.mft_number.to_string().parse().ok();
                if let Some(published) = published {
                    r.stat("c14.published_number_compared");
                    if published != set.number as u128 {
                        r.violation(
                            "C14", "reissued_not_published",
                            format!(
                                "CA {} class {} key {} ({}): the stored \
                                 object set is at manifest number {} (next \
                                 update {}), the repository serves number \
                                 {published} (next update {}) although \
                                 background work has caught up",
                                mca.name, class.rcn, set.key_id, set.role,
                                set.number, set.next_update,
                                pp.mft_next_update.timestamp()
                            )
                        );
                    }
                }
            }
        }
    }
    // Stale manifests/CRLs and expired signed objects or router
    // certificates. Child CA certificates are renewed at the child's
    // request, not by the maintenance tasks; they are not judged here.
    for issue in &rpres.issues {
        let ca_cert = issue.contains("invalid CA certificate");
        if !ca_cert && (
            issue.contains("stale") || issue.contains("in the future")
            || issue.contains("expired")
        ) {
            r.violation("C14", "validity_window", issue.clone());
        }
    }
}
