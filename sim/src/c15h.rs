//! C15, second part: the trust-anchor signer on a host of its own.
//!
//! The instance runs the proxy only; the signer is the real stand-alone
//! `TrustAnchorSignerManager` (what `krillta signer` drives) on storage of
//! its own, and the harness is the courier that carries requests and
//! responses between the two. That makes a situation reachable that the
//! embedded signer cannot produce: the signer is *re-initialised* - set up
//! again on a new host with the same (imported) trust-anchor key and
//! therefore a new identity key - and the proxy is told with "signer
//! update". From then on only the newly associated signer may be listened
//! to; the one it left, and a signer that holds another trust-anchor key,
//! may not.

use std::collections::BTreeSet;
use std::str::FromStr;
use rpki::uri;
use krill::api;
use krill::api::ta::{TrustAnchorSignedRequest, TrustAnchorSignedResponse};
use krill::cli::ta::signer::{SignerInitInfo, TrustAnchorSignerManager};
use crate::history::{Oracles, Runner, Violation};
use crate::hooks;
use crate::ops::GenCfg;
use crate::rng::Rng;
use crate::runs::{RunReport, START_SECS};
use crate::seams;
use crate::sim::World;
use crate::util::{block_on, sha256_hex};
use crate::world::{self, guarded, Guarded, ADMIN};

const SIGNER_CONF: &str = "log_type = \"stderr\"\n\
    log_level = \"off\"\n\
    storage_uri = \"memory://\"\n\
    [timing_config]\n\
    certificate_validity_years = 100\n\
    issued_certificate_validity_weeks = 52\n\
    mft_next_update_weeks = 12\n";

fn proxy_digest(r: &Runner) -> String {
    hooks::with_faults_suspended(|| {
        let rt = r.world.inst(0).rt();
        let mut text = String::new();
        if let Ok(proxy) = rt.ca_manager().get_trust_anchor_proxy() {
            let mut v = serde_json::to_value(proxy.as_ref())
                .unwrap_or_default();
            if let Some(obj) = v.as_object_mut() {
                obj.remove("version");
            }
            text.push_str(&v.to_string());
        }
        if let Ok((objects, _)) = crate::rp::collect_objects(rt) {
            for (uri, bytes) in objects {
                text.push_str(&uri);
                text.push_str(&sha256_hex(&bytes)[..16]);
            }
        }
        sha256_hex(text.as_bytes())
    })
}

fn mft_nr(response: &TrustAnchorSignedResponse) -> u64 {
    response.content().objects.revision().number()
}

pub fn run(seed: u64) -> RunReport {
    let t0 = std::time::Instant::now();
    let mut report = RunReport {
        profile: "c15host".into(), seed, ..Default::default()
    };
    let base = world::make_run_dir(seed, "c15host");
    hooks::state().reset_for_run(&base, true);
    seams::set_seed(seed);
    seams::set_thread_stream(0);
    seams::set_thread_skew_secs(0);
    seams::enable(true);
    let root = Rng::new(seed);
    let mut cfg_rng = root.fork("config");
    let mut cfg = world::draw_inst_cfg("a", &mut cfg_rng, false);
    cfg.disk = cfg_rng.chance(1, 2);
    cfg.testbed = false;
    cfg.ta_proxy = true;
    cfg.ta_signer = false;
    report.config = format!("{cfg:?}");
    let rrdp_base = cfg.rrdp_base_uri();
    let rsync_jail = cfg.rsync_jail();
    let ta_uri = cfg.ta_uri();
    let ta_aia = cfg.ta_aia();
    let mut w = World::new(&base, START_SECS);
    w.add_instance(cfg);
    let mut r = Runner::new(
        w, root.fork("ops"), GenCfg::default(), Oracles::default()
    );
    let mut rng = root.fork("c15host");
    let mut violations: Vec<Violation> = Vec::new();
    let mut log: Vec<String> = Vec::new();
    let mut cases: BTreeSet<String> = BTreeSet::new();

    let outcome = guarded(|| -> Result<(), String> {
        r.world.insts[0].start()?;
        let inst = r.world.inst(0);
        inst.enter();
        let mgr = inst.mgr().clone();
        let e = |what: &str, err: String| format!("{what}: {err}");

        //--- Proxy with a repository.
        block_on(mgr.ta_proxy_init())
            .map_err(|x| e("proxy init", format!("{x:?}")))?;
        block_on(mgr.repository_init(api::admin::PublicationServerUris {
            rrdp_base_uri: uri::Https::from_str(&rrdp_base)
                .map_err(|x| e("rrdp uri", x.to_string()))?,
            rsync_jail: uri::Rsync::from_str(&rsync_jail)
                .map_err(|x| e("rsync uri", x.to_string()))?,
        })).map_err(|x| e("repository init", format!("{x:?}")))?;
        let req = block_on(mgr.ta_proxy_publisher_request())
            .map_err(|x| e("publisher request", format!("{x:?}")))?;
        let resp = block_on(mgr.add_publisher(req, ADMIN))
            .map_err(|x| e("add publisher", format!("{x:?}")))?;
        let contact = api::admin::RepositoryContact::try_from_response(resp)
            .map_err(|x| e("contact", format!("{x:?}")))?;
        block_on(mgr.ta_proxy_repository_update(contact, ADMIN))
            .map_err(|x| e("repository update", format!("{x:?}")))?;

        //--- Signer hosts.
        let (ta_key, other_key) = {
            let st = hooks::state();
            let n = st.keypool.len();
            (st.keypool[n - 1].clone(), st.keypool[n - 2].clone())
        };
        let new_signer = |key: &str, nr: Option<u64>|
            -> Result<TrustAnchorSignerManager, String>
        {
            let signer = TrustAnchorSignerManager::create(
                krill::tasigner::Config::parse_str(SIGNER_CONF)
                    .map_err(|x| e("signer config", x.to_string()))?
            ).map_err(|x| e("signer create", format!("{x:?}")))?;
            signer.init(SignerInitInfo {
                proxy_id: block_on(mgr.ta_proxy_id())
                    .map_err(|x| e("proxy id", format!("{x:?}")))?,
                repo_info: block_on(mgr.ta_proxy_repository_contact())
                    .map_err(|x| e("contact", format!("{x:?}")))?.into(),
                tal_https: vec![
                    uri::Https::from_str(&ta_uri)
                        .map_err(|x| e("ta uri", x.to_string()))?
                ],
                tal_rsync: uri::Rsync::from_str(&ta_aia)
                    .map_err(|x| e("ta aia", x.to_string()))?,
                private_key_pem: Some(key.to_string()),
                ta_mft_nr_override: nr,
            }).map_err(|x| e("signer init", format!("{x:?}")))?;
            Ok(signer)
        };
        // One request of the proxy, answered by `signers`; returns the
        // answers in the same order.
        let open_request = || -> Result<TrustAnchorSignedRequest, String> {
            block_on(mgr.ta_proxy_signer_make_request(ADMIN))
                .map_err(|x| e("make request", format!("{x:?}")))?;
            let req = block_on(mgr.ta_proxy_signer_get_request())
                .map_err(|x| e("get request", format!("{x:?}")))?;
            Ok(req.into())
        };
        let deliver = |response: TrustAnchorSignedResponse| {
            block_on(mgr.ta_proxy_signer_process_response(response, ADMIN))
                .map_err(|x| format!("{x:?}"))
        };

        let first = new_signer(&ta_key, None)?;
        let first_info = first.show()
            .map_err(|x| e("show", format!("{x:?}")))?;
        block_on(mgr.ta_proxy_signer_add(first_info.clone(), ADMIN))
            .map_err(|x| e("signer add", format!("{x:?}")))?;

        //--- Honest exchanges with the first signer.
        let mut last_nr = 0;
        for round in 0..(1 + rng.usize(2)) {
            let req = open_request()?;
            let response = first.process(req, None)
                .map_err(|x| e("first signer", format!("{x:?}")))?;
            let nr = mft_nr(&response);
            match deliver(response) {
                Ok(()) => {
                    cases.insert("host.genuine_exchange".into());
                    if nr <= last_nr {
                        violations.push(Violation {
                            prop: "C15".into(),
                            rule: "ta_manifest_number_not_increasing".into(),
                            detail: format!(
                                "exchange {round}: manifest number {nr} \
                                 after {last_nr}"
                            ),
                            step: round,
                        });
                    }
                    last_nr = nr;
                }
                Err(err) => violations.push(Violation {
                    prop: "C15".into(),
                    rule: "proxy_refuses_genuine_response".into(),
                    detail: format!(
                        "stand-alone signer, exchange {round}: {err}"
                    ),
                    step: round,
                }),
            }
            log.push(format!("exchange {round} number {nr}"));
        }

        //--- A signer with another trust-anchor key cannot take over.
        let foreign = new_signer(&other_key, None)?;
        let foreign_info = foreign.show()
            .map_err(|x| e("show", format!("{x:?}")))?;
        let before = proxy_digest(&r);
        match block_on(mgr.ta_proxy_signer_update(foreign_info, ADMIN)) {
            Err(_) => {
                cases.insert("host.foreign_signer_update_refused".into());
                if proxy_digest(&r) != before {
                    violations.push(Violation {
                        prop: "C15".into(),
                        rule: "refused_update_changed_state".into(),
                        detail: "signer update with another trust-anchor \
                                 key".into(),
                        step: 10,
                    });
                }
            }
            Ok(()) => violations.push(Violation {
                prop: "C15".into(),
                rule: "proxy_accepts_foreign_signer".into(),
                detail: "a signer update naming a signer with another \
                         trust-anchor key was accepted".into(),
                step: 10,
            }),
        }

        //--- Re-initialisation: same trust-anchor key, new identity.
        let second = new_signer(&ta_key, Some(100 + rng.below(50)))?;
        let second_info = second.show()
            .map_err(|x| e("show", format!("{x:?}")))?;
        if first_info.id.public_key.key_identifier()
            == second_info.id.public_key.key_identifier()
        {
            return Err("the re-initialised signer has the old identity".into())
        }
        block_on(mgr.ta_proxy_signer_update(second_info, ADMIN))
            .map_err(|x| e("signer update", format!("{x:?}")))?;
        cases.insert("host.signer_reinitialised".into());

        let rounds = 1 + rng.usize(2);
        for round in 0..rounds {
            let req = open_request()?;
            let from_old = first.process(req.clone(), None);
            let from_foreign = foreign.process(req.clone(), None);
            let from_new = second.process(req, None)
                .map_err(|x| e("second signer", format!("{x:?}")))?;
            let new_nr = mft_nr(&from_new);
            // Whether the genuine answer arrives before or after the
            // others.
            let genuine_first = rng.chance(1, 2);
            let mut bad: Vec<(&str, TrustAnchorSignedResponse)> = Vec::new();
            if let Ok(resp) = from_old {
                bad.push(("the signer it was associated with before", resp));
            }
            if let Ok(resp) = from_foreign {
                bad.push(("a signer with another trust-anchor key", resp));
            }
            let deliver_genuine = |
                violations: &mut Vec<Violation>, last_nr: &mut u64,
                cases: &mut BTreeSet<String>,
            | {
                match deliver(from_new.clone()) {
                    Ok(()) => {
                        cases.insert("host.new_signer_accepted".into());
                        if new_nr <= *last_nr {
                            violations.push(Violation {
                                prop: "C15".into(),
                                rule: "ta_manifest_number_not_increasing"
                                    .into(),
                                detail: format!(
                                    "after the signer update: manifest \
                                     number {new_nr} after {}", *last_nr
                                ),
                                step: 20 + round,
                            });
                        }
                        *last_nr = new_nr;
                    }
                    Err(err) => violations.push(Violation {
                        prop: "C15".into(),
                        rule: "proxy_refuses_genuine_response".into(),
                        detail: format!(
                            "the response of the signer the proxy is now \
                             associated with (after a signer update) was \
                             refused: {err}"
                        ),
                        step: 20 + round,
                    }),
                }
            };
            if genuine_first {
                deliver_genuine(&mut violations, &mut last_nr, &mut cases);
            }
            for (who, resp) in bad {
                let before = proxy_digest(&r);
                let nr = mft_nr(&resp);
                match deliver(resp) {
                    Err(_) => {
                        cases.insert("host.other_signer_refused".into());
                        if proxy_digest(&r) != before {
                            violations.push(Violation {
                                prop: "C15".into(),
                                rule: "refused_response_changed_state".into(),
                                detail: format!("response of {who}"),
                                step: 20 + round,
                            });
                        }
                    }
                    Ok(()) => violations.push(Violation {
                        prop: "C15".into(),
                        rule: "proxy_accepts_bad_response".into(),
                        detail: format!(
                            "after a signer update the proxy accepted the \
                             response of {who} (manifest number {nr}, the \
                             proxy was at {last_nr})"
                        ),
                        step: 20 + round,
                    }),
                }
            }
            if !genuine_first {
                deliver_genuine(&mut violations, &mut last_nr, &mut cases);
            }
            log.push(format!(
                "after update, round {round}: genuine first {genuine_first}, \
                 number {new_nr}"
            ));
        }
        Ok(())
    });
    match outcome {
        Guarded::Ok(Ok(())) => { }
        Guarded::Ok(Err(err)) => {
            report.harness_error = Some(format!("c15host: {err}"));
        }
        Guarded::Panic(msg) => violations.push(Violation {
            prop: "C16".into(), rule: "panic".into(),
            detail: format!("proxy with a stand-alone signer: {msg}"),
            step: 0,
        }),
        other => {
            report.harness_error = Some(format!("c15host: {other:?}"));
        }
    }
    for inst in r.world.insts.iter_mut() {
        inst.stop();
    }
    seams::enable(false);
    {
        let st = hooks::state();
        report.kv_mutations = st.kv_mutations;
        report.fs_mutations = st.fs_mutations;
        report.fired = st.fired.clone();
    }
    report.stats.insert("cases".into(), cases.len() as u64);
    report.extra_sites = cases.into_iter().collect();
    report.fingerprint = sha256_hex(log.join("\n").as_bytes());
    report.results = log;
    report.violations = violations;
    report.state_changing_ops = 1;
    report.caught_up_checks = 1;
    report.wall_ms = t0.elapsed().as_millis() as u64;
    world::remove_run_dir(&base);
    report
}
