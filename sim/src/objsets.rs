//! Reading a CA's stored object sets (the `ca_objects` entry) as data.
//!
//! This is what the CA will publish at its next repository synchronisation:
//! per resource class and key a manifest/CRL revision, the revocation list
//! and the published products. The harness decodes the certificates and
//! objects in it itself; it does not trust Krill's bookkeeping about them.

use std::collections::BTreeMap;
use base64::Engine;
use rpki::repository::cert::Cert;
use rpki::repository::resources::ResourceSet;
use serde_json::Value;
use krill::server::runtime::KrillRuntime;

#[derive(Clone, Debug)]
pub struct Product {
    pub name: String,
    pub bytes: Vec<u8>,
    pub serial: String,
    pub expires: i64,
}

#[derive(Clone, Debug)]
pub struct KeySet {
    /// "current_set", "staging_set" or "old_set".
    pub role: String,
    pub key_id: String,
    pub signing_resources: ResourceSet,
    pub number: u64,
    pub this_update: i64,
    pub next_update: i64,
    pub manifest: Vec<u8>,
    pub crl: Vec<u8>,
    pub revocations: Vec<String>,
    pub products: BTreeMap<String, Product>,
}

#[derive(Clone, Debug)]
pub struct ClassSets {
    pub rcn: String,
    /// "current", "staging" or "old".
    pub state: String,
    pub sets: Vec<KeySet>,
}

fn b64(v: &Value) -> Vec<u8> {
    v.as_str().and_then(|s| {
        base64::engine::general_purpose::STANDARD.decode(s).ok()
    }).unwrap_or_default()
}

fn time(v: &Value) -> i64 {
    match v {
        Value::Number(n) => n.as_i64().unwrap_or(0),
        Value::String(s) => {
            chrono::DateTime::parse_from_rfc3339(s)
                .map(|t| t.timestamp()).unwrap_or(0)
        }
        _ => 0
    }
}

fn resources(v: &Value) -> ResourceSet {
    let get = |k: &str| v.get(k).and_then(|x| x.as_str()).unwrap_or("");
    ResourceSet::from_strs(get("asn"), get("ipv4"), get("ipv6"))
        .unwrap_or_default()
}

fn parse_set(role: &str, v: &Value) -> Option<KeySet> {
    let signing = v.get("signing_cert")?;
    let revision = v.get("revision")?;
    let mut products = BTreeMap::new();
    if let Some(map) = v.get("published_objects").and_then(|p| p.as_object()) {
        for (name, obj) in map {
            products.insert(name.clone(), Product {
                name: name.clone(),
                bytes: b64(obj.get("base64").unwrap_or(&Value::Null)),
                serial: obj.get("serial").map(|s| s.to_string())
                    .unwrap_or_default(),
                expires: time(obj.get("expires").unwrap_or(&Value::Null)),
            });
        }
    }
    let mut revocations = Vec::new();
    if let Some(list) = v.get("revocations").and_then(|r| r.as_array()) {
        for rev in list {
            if let Some(serial) = rev.get("serial") {
                revocations.push(serial.to_string());
            }
        }
    }
    // The key identifier is the file name of the certificate. (The `name`
    // field cannot be used: for a certificate published directly under the
    // repository base it lacks its first character.)
    let key_id = signing.get("uri").and_then(|n| n.as_str())
        .and_then(|u| u.rsplit('/').next())
        .map(|n| n.trim_end_matches(".cer").to_string())
        .unwrap_or_default();
    Some(KeySet {
        role: role.to_string(),
        key_id,
        signing_resources: resources(signing.get("resources")?),
        number: revision.get("number").and_then(|n| n.as_u64()).unwrap_or(0),
        this_update: time(revision.get("this_update").unwrap_or(&Value::Null)),
        next_update: time(revision.get("next_update").unwrap_or(&Value::Null)),
        manifest: b64(
            v.get("manifest").and_then(|m| m.get("base64"))
                .unwrap_or(&Value::Null)
        ),
        crl: b64(
            v.get("crl").and_then(|m| m.get("base64")).unwrap_or(&Value::Null)
        ),
        revocations,
        products,
    })
}

/// Parses the stored object sets of a CA.
pub fn read(rt: &KrillRuntime, ca: &str) -> Vec<ClassSets> {
    let Some(json) = crate::oracles::ca_objects_json(rt, ca) else {
        return Vec::new()
    };
    let mut out = Vec::new();
    let Some(classes) = json.get("classes").and_then(|c| c.as_object()) else {
        return out
    };
    for (rcn, class) in classes {
        let Some(keys) = class.get("keys").and_then(|k| k.as_object()) else {
            continue
        };
        // Internally tagged: {"type": "current", "current_set": {..}, ..}
        let state = keys.get("type").and_then(|t| t.as_str())
            .unwrap_or("").to_string();
        let mut sets = Vec::new();
        for (role, set) in keys {
            if role == "type" {
                continue
            }
            if let Some(set) = parse_set(role, set) {
                sets.push(set);
            }
        }
        out.push(ClassSets { rcn: rcn.clone(), state, sets });
    }
    out.sort_by(|a, b| a.rcn.cmp(&b.rcn));
    out
}

/// Decodes a product as a CA certificate, if it is one.
pub fn as_ca_cert(product: &Product) -> Option<(Cert, ResourceSet)> {
    if !product.name.ends_with(".cer") {
        return None
    }
    let cert = Cert::decode(product.bytes.as_slice()).ok()?;
    if cert.basic_ca() != Some(true) {
        return None
    }
    let res = ResourceSet::try_from(&cert).unwrap_or_default();
    Some((cert, res))
}
