//! C10: the publication protocol - atomic deltas, hash checks and publisher
//! isolation - against a reference model.
//!
//! Raw publishers (no CA behind them) are registered at the real
//! publication server of a simulated instance and send list and delta
//! queries through `RepositoryManager::rfc8181_message`, interleaved with
//! RRDP updates (the real scheduler), session resets, restarts and publisher
//! removal. The model is a map per publisher.

use std::collections::{BTreeMap, BTreeSet};
use std::str::FromStr;
use rpki::ca::idexchange::{PublisherHandle, PublisherRequest};
use rpki::ca::publication::{
    Base64, Message, Publish, PublishDelta, Query, Reply, Update, Withdraw,
};
use rpki::uri;
use crate::history::{Oracles, Runner, Violation};
use crate::hooks;
use crate::ops::GenCfg;
use crate::rng::Rng;
use crate::runs::{RunReport, START_SECS};
use crate::seams;
use crate::served;
use crate::sim::World;
use crate::util::{block_on, sha256_hex};
use crate::world::{self, guarded, Guarded, ADMIN};

const HANDLES: &[&str] = &["alice", "alice2", "ali", "bob", "a", "a/b", "Bob"];

type Files = BTreeMap<String, String>;

#[derive(Clone, Debug)]
enum El {
    Publish { uri: String, data: Vec<u8> },
    Update { uri: String, old: String, data: Vec<u8> },
    Withdraw { uri: String, old: String },
}

impl El {
    fn uri(&self) -> &str {
        match self {
            El::Publish { uri, .. } | El::Update { uri, .. }
            | El::Withdraw { uri, .. } => uri
        }
    }
}

#[derive(Clone, Debug)]
enum POp {
    Add(String),
    Remove(String),
    Delta { who: String, els: Vec<El>, note: String },
    List(String),
    Pump,
    SessionReset,
    Restart,
    Advance(i64),
}

fn canon(uri: &str) -> String {
    // Scheme and authority are case-insensitive.
    match uri::Rsync::from_str(uri) {
        Ok(u) => format!("{}{}", u.canonical_module(), u.path()),
        Err(_) => uri.to_string(),
    }
}

fn hash_of(data: &[u8]) -> String {
    sha256_hex(data)
}

fn rrdp_hash(hex: &str) -> rpki::rrdp::Hash {
    rpki::rrdp::Hash::from_str(hex).expect("hash")
}

struct Ctx {
    jail: String,
    /// handle -> files (canonical uri -> hash); only registered publishers.
    model: BTreeMap<String, Files>,
    counter: u64,
}

impl Ctx {
    fn base(&self, who: &str) -> String {
        format!("{}{who}/", self.jail)
    }

    fn fresh_data(&mut self, rng: &mut Rng) -> Vec<u8> {
        self.counter += 1;
        let mut data = format!("object-{}-", self.counter).into_bytes();
        for _ in 0..rng.below(24) {
            data.push(rng.below(256) as u8);
        }
        data
    }
}

fn names() -> Vec<&'static str> {
    vec![
        "x.cer", "y.roa", "m.mft", "c.crl", "sub/z.roa", "sub/deep/w.asa",
        // Collides with the space of publisher "a/b" when used by "a".
        "b/x.cer", "b/m.mft",
    ]
}

/// Draws a delta; mostly valid against the model, sometimes with one bad
/// element at a drawn position.
fn draw_delta(rng: &mut Rng, ctx: &mut Ctx, who: &str) -> (Vec<El>, String) {
    let files = ctx.model.get(who).cloned().unwrap_or_default();
    let base = ctx.base(who);
    let n = 1 + rng.below(4) as usize;
    let mut els: Vec<El> = Vec::new();
    let mut used: BTreeSet<String> = BTreeSet::new();
    for _ in 0..n {
        let existing: Vec<(&String, &String)> = files.iter()
            .filter(|(u, _)| !used.contains(*u)).collect();
        let choice = rng.below(10);
        if choice < 4 || existing.is_empty() {
            let name = *rng.pick(&names());
            let uri = format!("{base}{name}");
            if used.contains(&canon(&uri)) || files.contains_key(&canon(&uri)) {
                continue
            }
            used.insert(canon(&uri));
            let data = ctx.fresh_data(rng);
            els.push(El::Publish { uri, data });
        }
        else if choice < 7 {
            let (uri, old) = *rng.pick(&existing);
            used.insert(uri.clone());
            let data = ctx.fresh_data(rng);
            els.push(El::Update { uri: uri.clone(), old: old.clone(), data });
        }
        else {
            let (uri, old) = *rng.pick(&existing);
            used.insert(uri.clone());
            els.push(El::Withdraw { uri: uri.clone(), old: old.clone() });
        }
    }
    let mut note = "valid".to_string();
    if rng.chance(2, 5) {
        // One bad element, at any position.
        let others: Vec<String> = ctx.model.keys()
            .filter(|h| h.as_str() != who).cloned().collect();
        let kind = rng.below(9);
        let bad: Option<(El, &str)> = match kind {
            0 => {
                // Publish what exists (needs update).
                files.iter().find(|(u, _)| !used.contains(*u)).map(|(u, _)| {
                    (El::Publish { uri: u.clone(), data: ctx.fresh_data(rng) },
                     "publish_existing")
                })
            }
            1 => {
                files.iter().find(|(u, _)| !used.contains(*u)).map(|(u, _)| {
                    (El::Update {
                        uri: u.clone(), old: hash_of(b"something else"),
                        data: ctx.fresh_data(rng),
                    }, "update_wrong_hash")
                })
            }
            2 => {
                files.iter().find(|(u, _)| !used.contains(*u)).map(|(u, _)| {
                    (El::Withdraw {
                        uri: u.clone(), old: hash_of(b"something else")
                    }, "withdraw_wrong_hash")
                })
            }
            3 => {
                let uri = format!("{base}absent-{}.roa", ctx.counter);
                Some((El::Withdraw { uri, old: hash_of(b"x") }, "withdraw_absent"))
            }
            4 => {
                let uri = format!("{base}absent-{}.roa", ctx.counter);
                Some((El::Update {
                    uri, old: hash_of(b"x"), data: ctx.fresh_data(rng)
                }, "update_absent"))
            }
            5 => {
                // Another publisher's space.
                if others.is_empty() { None } else {
                    let other = rng.pick(&others).clone();
                    if ctx.base(&other).starts_with(&base) {
                        // Nested below our own base: inside the jail.
                        None
                    }
                    else {
                        let victim = ctx.model.get(&other)
                            .and_then(|f| f.iter().next())
                            .map(|(u, h)| (u.clone(), h.clone()));
                        match victim {
                            Some((uri, old)) if rng.chance(1, 2) => Some((
                                El::Withdraw { uri, old }, "withdraw_foreign"
                            )),
                            Some((uri, old)) => Some((
                                El::Update { uri, old, data: ctx.fresh_data(rng) },
                                "update_foreign"
                            )),
                            None => Some((El::Publish {
                                uri: format!("{}evil.cer", ctx.base(&other)),
                                data: ctx.fresh_data(rng),
                            }, "publish_foreign")),
                        }
                    }
                }
            }
            6 => {
                // Look-alike: the handle as a prefix of another directory.
                let uri = format!("{}{who}x/evil.cer", ctx.jail);
                Some((El::Publish { uri, data: ctx.fresh_data(rng) },
                      "publish_lookalike_dir"))
            }
            7 => {
                let uri = format!("{}evil-{}.cer", ctx.jail, ctx.counter);
                Some((El::Publish { uri, data: ctx.fresh_data(rng) },
                      "publish_above_base"))
            }
            _ => {
                let uri = format!(
                    "rsync://other.example/repo/{who}/evil.cer"
                );
                Some((El::Publish { uri, data: ctx.fresh_data(rng) },
                      "publish_other_host"))
            }
        };
        if let Some((el, what)) = bad {
            if !els.iter().any(|e| canon(e.uri()) == canon(el.uri())) {
                let pos = rng.usize(els.len() + 1);
                els.insert(pos, el);
                note = what.to_string();
            }
        }
    }
    else if rng.chance(1, 6) {
        // Valid, but written with another case of scheme and host.
        for el in els.iter_mut() {
            let shout = |u: &str| -> String {
                match u.split_once("://").and_then(|(s, rest)| {
                    rest.split_once('/').map(|(h, p)| (s, h, p))
                }) {
                    Some((s, h, p)) => format!(
                        "{}://{}/{p}", s.to_uppercase(), h.to_uppercase()
                    ),
                    None => u.to_string(),
                }
            };
            match el {
                El::Publish { uri, .. } | El::Update { uri, .. }
                | El::Withdraw { uri, .. } => *uri = shout(uri),
            }
        }
        note = "valid_other_case".to_string();
    }
    (els, note)
}

/// The model's verdict and, if accepted, the new file set.
fn model_apply(ctx: &Ctx, who: &str, els: &[El]) -> Result<Files, String> {
    let mut files = ctx.model.get(who).cloned()
        .ok_or_else(|| "unknown publisher".to_string())?;
    let before = files.clone();
    let base = canon(&ctx.base(who));
    for el in els {
        let uri = canon(el.uri());
        if !uri.starts_with(&base) {
            return Err(format!("{uri} is outside {base}"))
        }
        match el {
            El::Publish { data, .. } => {
                if before.contains_key(&uri) {
                    return Err(format!("{uri} is already present"))
                }
                files.insert(uri, hash_of(data));
            }
            El::Update { old, data, .. } => {
                if before.get(&uri) != Some(old) {
                    return Err(format!("{uri} does not have the stated hash"))
                }
                files.insert(uri, hash_of(data));
            }
            El::Withdraw { old, .. } => {
                if before.get(&uri) != Some(old) {
                    return Err(format!("{uri} does not have the stated hash"))
                }
                files.remove(&uri);
            }
        }
    }
    Ok(files)
}

fn to_delta(els: &[El]) -> Option<PublishDelta> {
    let mut delta = PublishDelta::empty();
    for el in els {
        let uri = uri::Rsync::from_str(el.uri()).ok()?;
        match el {
            El::Publish { data, .. } => delta.add_publish(
                Publish::with_hash_tag(uri, Base64::from_content(data))
            ),
            El::Update { old, data, .. } => delta.add_update(
                Update::with_hash_tag(
                    uri, Base64::from_content(data), rrdp_hash(old)
                )
            ),
            El::Withdraw { old, .. } => delta.add_withdraw(
                Withdraw::with_hash_tag(uri, rrdp_hash(old))
            ),
        }
    }
    Some(delta)
}

/// What the server says a publisher has: via the list query and via the
/// publisher details.
fn server_view(r: &Runner, who: &str) -> Result<(Files, Files), String> {
    hooks::with_faults_suspended(|| {
        let inst = r.world.inst(0);
        inst.enter();
        let rt = inst.rt();
        let handle = PublisherHandle::from_str(who).map_err(|e| e.to_string())?;
        let reply = rt.repo_manager().rfc8181_message(&handle, Query::List, rt)
            .map_err(|e| e.to_string())?;
        let mut listed = Files::new();
        match reply {
            Message::Reply(Reply::List(list)) => {
                for el in list.elements() {
                    listed.insert(
                        canon(&el.uri().to_string()),
                        el.hash().to_string().to_lowercase()
                    );
                }
            }
            other => return Err(format!("list query answered with {other:?}")),
        }
        let details = rt.repo_manager().get_publisher_details(handle)
            .map_err(|e| e.to_string())?;
        let mut current = Files::new();
        for file in details.current_files {
            current.insert(
                canon(&file.uri.to_string()),
                sha256_hex(&file.base64.to_bytes())
            );
        }
        Ok((listed, current))
    })
}

pub fn run(seed: u64) -> RunReport {
    run_with(seed, false)
}

/// With `faults`, a fifth of the deltas is sent with the k-th storage or
/// file-system mutation of the request failing (k seeded, 1-5): the delta
/// must then be applied completely or not at all, and a positive reply
/// means applied.
pub fn run_with(seed: u64, faults: bool) -> RunReport {
    let t0 = std::time::Instant::now();
    let name = if faults { "c10fail" } else { "c10" };
    let mut report = RunReport {
        profile: name.into(), seed, ..Default::default()
    };
    let base = world::make_run_dir(seed, name);
    hooks::state().reset_for_run(&base, true);
    seams::set_seed(seed);
    seams::set_thread_stream(0);
    seams::set_thread_skew_secs(0);
    seams::enable(true);
    let root = Rng::new(seed);
    let mut cfg_rng = root.fork("config");
    let mut cfg = world::draw_inst_cfg("a", &mut cfg_rng, false);
    cfg.disk = cfg_rng.chance(1, 2);
    let (min_nr, max_nr, min_seconds, max_seconds, interval)
        = crate::ops::draw_rrdp_retention(&mut cfg_rng);
    cfg.rrdp.min_nr = min_nr;
    cfg.rrdp.max_nr = max_nr;
    cfg.rrdp.min_seconds = min_seconds;
    cfg.rrdp.max_seconds = max_seconds;
    cfg.rrdp.interval_min_seconds = interval;
    report.config = format!("{cfg:?}");
    let disk = cfg.disk;
    let mut w = World::new(&base, START_SECS);
    w.add_instance(cfg);
    let mut r = Runner::new(
        w, root.fork("ops"), GenCfg::default(), Oracles::default()
    );
    match guarded(|| r.world.insts[0].start()) {
        Guarded::Ok(Ok(())) => { }
        other => {
            report.harness_error = Some(format!("start: {other:?}"));
            world::remove_run_dir(&base);
            return report
        }
    }
    r.exec_pump();
    let id_cert = match hooks::with_faults_suspended(|| {
        r.world.inst(0).rt().signer().create_self_signed_id_cert()
    }) {
        Ok(cert) => cert,
        Err(err) => {
            report.harness_error = Some(format!("id cert: {err}"));
            world::remove_run_dir(&base);
            return report
        }
    };
    let mut ctx = Ctx {
        jail: r.world.inst(0).cfg.rsync_jail(),
        model: BTreeMap::new(),
        counter: 0,
    };
    let mut rng = root.fork("c10");
    let n_ops = 25 + rng.usize(50);
    let mut log: Vec<String> = Vec::new();
    let mut violations: Vec<Violation> = Vec::new();
    let mut refused = 0u64;
    let mut accepted = 0u64;
    let mut bad_kinds: BTreeSet<String> = BTreeSet::new();
    let mut mem = served::ClientMemory::default();
    let mut reset_expected = false;
    // A delta was stored but the task that makes it visible in RRDP could
    // not be queued (injected failure of the task store): until the next
    // publication queues that task again, what is served lags behind.
    // That is a lost follow-up (C09), not a defect of the publication
    // protocol (C10).
    let mut rrdp_task_lost: Option<&'static str> = None;
    // An RRDP update is queued (a change was accepted since the last pump).
    let mut rrdp_pending = false;

    'outer: for step in 0..n_ops {
        let registered: Vec<String> = ctx.model.keys().cloned().collect();
        let op = {
            let pick = rng.below(100);
            if registered.len() < 2 || pick < 10 {
                let free: Vec<&&str> = HANDLES.iter()
                    .filter(|h| !ctx.model.contains_key(**h)).collect();
                if free.is_empty() { POp::Pump }
                else { POp::Add(rng.pick(&free).to_string()) }
            }
            else if pick < 15 {
                POp::Remove(rng.pick(&registered).clone())
            }
            else if pick < 70 {
                let who = rng.pick(&registered).clone();
                let (els, note) = draw_delta(&mut rng, &mut ctx, &who);
                POp::Delta { who, els, note }
            }
            else if pick < 76 {
                POp::List(rng.pick(&registered).clone())
            }
            else if pick < 88 { POp::Pump }
            else if pick < 92 { POp::SessionReset }
            else if pick < 96 && disk { POp::Restart }
            else { POp::Advance(*rng.pick(&[1i64, 30, 300, 3600])) }
        };
        let inst = r.world.inst(0);
        inst.enter();
        let mut line = format!("{step} {op:?}");
        if line.len() > 400 { line.truncate(400) }
        match &op {
            POp::Add(who) => {
                let handle = PublisherHandle::from_str(who).unwrap();
                let req = PublisherRequest::new(
                    Base64::from_content(
                        &id_cert.to_bytes()
                    ),
                    handle, None
                );
                let res = inst.rt().repo_manager().create_publisher(req, &ADMIN);
                // A publisher whose directory would lie within another
                // publisher's (or contain it) cannot be isolated from it.
                let new_base = canon(&ctx.base(who));
                let overlaps = ctx.model.keys().any(|other| {
                    let base = canon(&ctx.base(other));
                    base.starts_with(&new_base) || new_base.starts_with(&base)
                });
                line.push_str(if res.is_ok() { " -> added" } else { " -> refused" });
                match (res, overlaps) {
                    (Ok(()), false) => {
                        ctx.model.insert(who.clone(), Files::new());
                    }
                    (Err(_), true) => { }
                    (Ok(()), true) => {
                        violations.push(Violation {
                            prop: "C10".into(),
                            rule: "overlapping_publisher_accepted".into(),
                            detail: format!(
                                "publisher {who} was added although its \
                                 base URI overlaps with that of one of {:?}",
                                ctx.model.keys().collect::<Vec<_>>()
                            ),
                            step,
                        });
                        ctx.model.insert(who.clone(), Files::new());
                    }
                    (Err(err), false) => violations.push(Violation {
                        prop: "C10".into(), rule: "add_publisher_fails".into(),
                        detail: format!("{who}: {err}"), step,
                    }),
                }
            }
            POp::Remove(who) => {
                let handle = PublisherHandle::from_str(who).unwrap();
                let res = inst.rt().repo_manager().remove_publisher(
                    handle, &ADMIN, inst.rt()
                );
                match res {
                    Ok(()) => { ctx.model.remove(who); rrdp_task_lost = None; rrdp_pending = true; }
                    Err(err) => violations.push(Violation {
                        prop: "C10".into(), rule: "remove_publisher_fails".into(),
                        detail: format!("{who}: {err}"), step,
                    }),
                }
            }
            POp::Delta { who, els, note } => {
                let verdict = model_apply(&ctx, who, els);
                let handle = PublisherHandle::from_str(who).unwrap();
                let Some(delta) = to_delta(els) else {
                    log.push(format!("{line} -> unbuildable"));
                    continue
                };
                let inject = faults && rng.chance(1, 5);
                if inject {
                    let k = 1 + rng.below(5);
                    hooks::state().fault = hooks::FaultPlan {
                        mode: hooks::FaultMode::FailAt(k),
                        scope: hooks::FaultScope::All,
                        instance: None,
                        counter: 0,
                        fired_at: None,
                        record: false,
                        sites: Vec::new(),
                    };
                }
                let guarded_res = guarded(|| {
                    inst.rt().repo_manager().rfc8181_message(
                        &handle, Query::Delta(delta), inst.rt()
                    )
                });
                let fired = {
                    let mut st = hooks::state();
                    let fired = st.fault.fired_at.clone();
                    st.fault = hooks::FaultPlan::default();
                    fired
                };
                if let Some(at) = &fired {
                    *report.fired.entry("fail_write".into()).or_insert(0) += 1;
                    *report.stats.entry(format!(
                        "fail_at.{}", crate::cuts::classify_site(at)
                    )).or_insert(0) += 1;
                }
                let res = match guarded_res {
                    Guarded::Ok(res) => res,
                    other => {
                        // The daemon stops on some storage errors; only
                        // after an injected one that is not a finding.
                        if fired.is_none() {
                            violations.push(Violation {
                                prop: "C10".into(), rule: "daemon_dies".into(),
                                detail: format!("delta of {who}: {other:?}"),
                                step,
                            });
                            break 'outer
                        }
                        line.push_str(" -> daemon stopped");
                        r.world.insts[0].stop();
                        match guarded(|| r.world.insts[0].start()) {
                            Guarded::Ok(Ok(())) => { }
                            other => {
                                violations.push(Violation {
                                    prop: "C10".into(),
                                    rule: "restart_fails".into(),
                                    detail: format!("{other:?}"), step,
                                });
                                break 'outer
                            }
                        }
                        Err(krill::commons::error::Error::custom(
                            "daemon stopped"
                        ))
                    }
                };
                let ok = matches!(&res, Ok(Message::Reply(Reply::Success)));
                if fired.is_some() && !ok {
                    // The failed request may or may not have happened, but
                    // never in part.
                    line.push_str(" -> failed (injected)");
                    let before = ctx.model.get(who).cloned().unwrap_or_default();
                    match server_view(&r, who) {
                        Ok((listed, _)) => {
                            if listed == before {
                                line.push_str(", not applied");
                            }
                            else if verdict.as_ref().ok() == Some(&listed) {
                                line.push_str(", applied");
                                ctx.model.insert(who.clone(), listed);
                                if fired.as_deref().map(|at| {
                                    crate::cuts::classify_site(at)
                                        .ends_with(".task")
                                }).unwrap_or(false) {
                                    // Was an update for an earlier,
                                    // acknowledged change queued?
                                    rrdp_task_lost = Some(if rrdp_pending {
                                        "pending_rrdp_update_cancelled"
                                    } else {
                                        "rrdp_update_not_queued"
                                    });
                                }
                            }
                            else {
                                violations.push(Violation {
                                    prop: "C10".into(),
                                    rule: "delta_applied_in_part".into(),
                                    detail: format!(
                                        "publisher {who} ({note}): a write \
                                         failed at {} while the delta was \
                                         processed; afterwards the \
                                         publisher's content is neither \
                                         what it was nor what the whole \
                                         delta makes it: {}",
                                        fired.clone().unwrap_or_default(),
                                        served::diff(
                                            "before", &before,
                                            "now", &listed
                                        ).unwrap_or_default()
                                    ),
                                    step,
                                });
                            }
                        }
                        Err(err) => violations.push(Violation {
                            prop: "C10".into(), rule: "list_fails".into(),
                            detail: format!("{who}: {err}"), step,
                        }),
                    }
                    log.push(line);
                    if !violations.is_empty() { break 'outer }
                    continue
                }
                line.push_str(if ok { " -> success" } else { " -> refused" });
                bad_kinds.insert(note.clone());
                match (&verdict, ok) {
                    (Ok(files), true) => {
                        accepted += 1;
                        ctx.model.insert(who.clone(), files.clone());
                        rrdp_task_lost = None;
                        rrdp_pending = true;
                    }
                    (Err(_), false) => { refused += 1; }
                    (Ok(_), false) => violations.push(Violation {
                        prop: "C10".into(), rule: "valid_delta_refused".into(),
                        detail: format!(
                            "publisher {who} ({note}): {:?} was refused: {}",
                            els.iter().map(|e| e.uri()).collect::<Vec<_>>(),
                            res.err().map(|e| e.to_string()).unwrap_or_default()
                        ),
                        step,
                    }),
                    (Err(why), true) => {
                        violations.push(Violation {
                            prop: "C10".into(),
                            rule: "invalid_delta_accepted".into(),
                            detail: format!(
                                "publisher {who} ({note}): a delta was \
                                 applied although {why}"
                            ),
                            step,
                        });
                        // Follow the server to keep comparing.
                        if let Ok((listed, _)) = server_view(&r, who) {
                            ctx.model.insert(who.clone(), listed);
                        }
                    }
                }
            }
            POp::List(_) => { }
            POp::Pump => {
                rrdp_pending = false;
                let res = r.exec_pump();
                line.push_str(&format!(" -> {res}"));
                if r.dead.is_some() {
                    violations.push(Violation {
                        prop: "C10".into(), rule: "daemon_dies".into(),
                        detail: format!("{:?}", r.dead), step,
                    });
                    break 'outer
                }
            }
            POp::SessionReset => {
                let res = block_on(inst.mgr().repository_session_reset());
                if res.is_ok() {
                    reset_expected = true;
                }
            }
            POp::Restart => {
                rrdp_task_lost = None;
                r.world.insts[0].stop();
                match guarded(|| r.world.insts[0].start()) {
                    Guarded::Ok(Ok(())) => { }
                    other => {
                        violations.push(Violation {
                            prop: "C10".into(), rule: "restart_fails".into(),
                            detail: format!("{other:?}"), step,
                        });
                        break 'outer
                    }
                }
            }
            POp::Advance(secs) => r.world.advance(*secs),
        }
        log.push(line);

        if r.world.inst(0).is_up() {
            // Served files: no URI twice, snapshot == all content.
            let (repo_dir, base_uri, max_nr, min_nr, min_seconds) = {
                let i = r.world.inst(0);
                (i.repo_dir(), i.cfg.rrdp_base_uri(), i.cfg.rrdp.max_nr,
                 i.cfg.rrdp.min_nr, i.cfg.rrdp.min_seconds as i64)
            };
            let _ = max_nr;
            match served::fetch_rrdp(&repo_dir, &base_uri) {
                Ok((view, problems)) => {
                    for p in problems {
                        violations.push(Violation {
                            prop: "C10".into(),
                            rule: "served_files_inconsistent".into(),
                            detail: p, step,
                        });
                    }
                    for p in mem.observe(
                        &view, std::mem::take(&mut reset_expected),
                        usize::MAX, min_nr, min_seconds,
                        seams::now_secs()
                    ) {
                        violations.push(Violation {
                            prop: "C10".into(),
                            rule: "rrdp_client".into(), detail: p, step,
                        });
                    }
                    // At quiescence the snapshot is the content.
                    let content = if matches!(op, POp::Pump) {
                        crate::c11::content(&r)
                    } else { None };
                    if let Some(content) = content {
                        let content: served::ObjSet = content.into_iter()
                            .map(|(u, h)| (canon(&u), h)).collect();
                        if let Some(d) = served::diff(
                            "the publishers' content", &content,
                            "the RRDP snapshot", &view.snapshot
                        ) {
                            violations.push(Violation {
                                prop: if rrdp_task_lost.is_some() { "C09" } else { "C10" }.into(),
                                rule: rrdp_task_lost
                                    .unwrap_or("snapshot_differs").into(),
                                detail: d, step,
                            });
                        }
                    }
                    // Everything of the model's publishers and nothing
                    // else below their base URIs.
                    let at_quiescence = matches!(op, POp::Pump);
                    for (who, files) in ctx.model.iter().filter(|_| at_quiescence) {
                        let base = canon(&ctx.base(who));
                        let nested: Vec<String> = ctx.model.keys()
                            .filter(|h| *h != who)
                            .map(|h| canon(&ctx.base(h)))
                            .filter(|b| b.starts_with(&base)).collect();
                        for (uri, hash) in &view.snapshot {
                            let c = canon(uri);
                            if c.starts_with(&base)
                                && !nested.iter().any(|n| c.starts_with(n))
                                && files.get(&c) != Some(hash)
                            {
                                violations.push(Violation {
                                    prop: if rrdp_task_lost.is_some() { "C09" } else { "C10" }.into(),
                                    rule: rrdp_task_lost
                                        .unwrap_or("foreign_object_in_space")
                                        .into(),
                                    detail: format!(
                                        "{uri} is served below the base \
                                         of {who} but is not what {who} \
                                         published"
                                    ),
                                    step,
                                });
                            }
                        }
                    }
                }
                Err(err) => violations.push(Violation {
                    prop: "C10".into(),
                    rule: "notification_unusable".into(),
                    detail: err, step,
                }),
            }
        }

        // Every publisher, after every request.
        for (who, files) in &ctx.model {
            match server_view(&r, who) {
                Ok((listed, current)) => {
                    if &listed != files {
                        violations.push(Violation {
                            prop: "C10".into(),
                            rule: "list_reply_differs".into(),
                            detail: format!(
                                "after {}: list reply of {who}: {}",
                                log.last().map(|l| &l[..l.len().min(160)])
                                    .unwrap_or(""),
                                served::diff(
                                    "the model", files, "the reply", &listed
                                ).unwrap_or_default()
                            ),
                            step,
                        });
                    }
                    if &current != files {
                        violations.push(Violation {
                            prop: "C10".into(),
                            rule: "publisher_details_differ".into(),
                            detail: format!(
                                "after {}: current files of {who}: {}",
                                log.last().map(|l| &l[..l.len().min(160)])
                                    .unwrap_or(""),
                                served::diff(
                                    "the model", files, "the server", &current
                                ).unwrap_or_default()
                            ),
                            step,
                        });
                    }
                }
                Err(err) => violations.push(Violation {
                    prop: "C10".into(), rule: "list_fails".into(),
                    detail: format!("{who}: {err}"), step,
                }),
            }
        }
        // Removed publishers are gone.
        let known: BTreeSet<String> = hooks::with_faults_suspended(|| {
            r.world.inst(0).rt().repo_manager().publishers()
                .unwrap_or_default().iter().map(|p| p.to_string()).collect()
        });
        for h in HANDLES {
            if known.contains(*h) != ctx.model.contains_key(*h) {
                violations.push(Violation {
                    prop: "C10".into(), rule: "publisher_set_differs".into(),
                    detail: format!(
                        "publisher {h}: server {} / model {}",
                        known.contains(*h), ctx.model.contains_key(*h)
                    ),
                    step,
                });
            }
        }
        if !violations.is_empty() {
            break
        }
    }
    for inst in r.world.insts.iter_mut() {
        inst.stop();
    }
    seams::enable(false);
    {
        let st = hooks::state();
        report.kv_mutations = st.kv_mutations;
        report.fs_mutations = st.fs_mutations;
    }
    report.sim_secs = r.world.sim_secs;
    report.stats.insert("deltas.accepted".into(), accepted);
    report.stats.insert("deltas.refused".into(), refused);
    for kind in bad_kinds {
        report.stats.insert(format!("delta.{kind}"), 1);
    }
    report.fingerprint = sha256_hex(log.join("\n").as_bytes());
    report.results = log;
    report.state_changing_ops = accepted;
    report.caught_up_checks = 1;
    report.violations = violations;
    let mut seen = BTreeSet::new();
    report.violations.retain(|v| seen.insert((v.prop.clone(), v.rule.clone())));
    report.wall_ms = t0.elapsed().as_millis() as u64;
    world::remove_run_dir(&base);
    report
}
