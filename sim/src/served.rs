//! O-CLIENT: a simulated relying party's fetcher for the files the
//! publication server serves: the RRDP directory (parsed with the rpki RRDP
//! parser) and the rsync tree.
//!
//! The client remembers every serial of every session it has seen together
//! with the object set it held at that serial, so that "a client holding
//! any earlier serial reaches the current snapshot through the offered
//! deltas" can be evaluated for all earlier serials at once.

use std::collections::BTreeMap;
use std::path::{Path, PathBuf};
use rpki::rrdp::{Delta, DeltaElement, NotificationFile, Snapshot};
use crate::util::sha256_hex;

/// URI -> SHA-256 (hex) of the content.
pub type ObjSet = BTreeMap<String, String>;

#[derive(Clone, Debug, Default)]
pub struct RrdpView {
    pub session: String,
    pub serial: u64,
    pub snapshot: ObjSet,
    /// Serials of the deltas listed in the notification file, ascending.
    pub delta_serials: Vec<u64>,
    /// Parsed deltas by serial.
    pub deltas: BTreeMap<u64, Vec<DeltaEl>>,
}

#[derive(Clone, Debug)]
pub enum DeltaEl {
    Publish { uri: String, hash: String },
    Update { uri: String, old: String, hash: String },
    Withdraw { uri: String, old: String },
}

/// Scheme and authority of an rsync URI are case-insensitive; the client
/// keys its objects by the canonical form (as rpki-rs compares them).
fn canon(uri: &rpki::uri::Rsync) -> String {
    format!("{}{}", uri.canonical_module(), uri.path())
}

fn hex(bytes: &[u8]) -> String {
    bytes.iter().map(|b| format!("{b:02x}")).collect()
}

/// Maps a URI below the RRDP base URI to the served file.
fn rrdp_path(repo_dir: &Path, base_uri: &str, uri: &str) -> Option<PathBuf> {
    let rel = uri.strip_prefix(base_uri)?;
    if rel.split('/').any(|c| c == ".." || c.is_empty()) {
        return None
    }
    Some(repo_dir.join("rrdp").join(rel))
}

/// Fetches the RRDP view and verifies everything the notification promises.
///
/// Returns the view and the list of problems found (instant invariants of
/// the served files themselves).
pub fn fetch_rrdp(
    repo_dir: &Path, base_uri: &str,
) -> Result<(RrdpView, Vec<String>), String> {
    let mut problems = Vec::new();
    let path = repo_dir.join("rrdp").join("notification.xml");
    let bytes = std::fs::read(&path).map_err(|e| {
        format!("cannot read {}: {e}", path.display())
    })?;
    let mut notification = NotificationFile::parse(bytes.as_slice())
        .map_err(|e| format!("notification.xml does not parse: {e}"))?;
    notification.sort_deltas();
    let session = notification.session_id().to_string();
    let serial = notification.serial();
    let mut view = RrdpView {
        session: session.clone(), serial, ..Default::default()
    };

    // Snapshot.
    let snap_uri = notification.snapshot().uri().to_string();
    match rrdp_path(repo_dir, base_uri, &snap_uri) {
        None => problems.push(format!(
            "snapshot URI {snap_uri} is not below {base_uri}"
        )),
        Some(path) => match std::fs::read(&path) {
            Err(e) => problems.push(format!(
                "snapshot {snap_uri} named by notification serial {serial} \
                 cannot be read: {e}"
            )),
            Ok(data) => {
                if !notification.snapshot().hash().matches(&data) {
                    problems.push(format!(
                        "snapshot {snap_uri} does not have the hash stated \
                         in the notification file"
                    ));
                }
                match Snapshot::parse(data.as_slice()) {
                    Err(e) => problems.push(format!(
                        "snapshot {snap_uri} does not parse: {e}"
                    )),
                    Ok(snapshot) => {
                        if snapshot.session_id().to_string() != session
                            || snapshot.serial() != serial
                        {
                            problems.push(format!(
                                "snapshot is for {}/{} but the notification \
                                 says {session}/{serial}",
                                snapshot.session_id(), snapshot.serial()
                            ));
                        }
                        for el in snapshot.into_elements() {
                            let (uri, data) = el.unpack();
                            if view.snapshot.insert(
                                canon(&uri), sha256_hex(&data)
                            ).is_some() {
                                problems.push(format!(
                                    "snapshot lists {uri} twice"
                                ));
                            }
                        }
                    }
                }
            }
        }
    }

    // Deltas.
    for info in notification.deltas() {
        let dserial = info.serial();
        view.delta_serials.push(dserial);
        let uri = info.uri().to_string();
        let Some(path) = rrdp_path(repo_dir, base_uri, &uri) else {
            problems.push(format!("delta URI {uri} is not below {base_uri}"));
            continue
        };
        let data = match std::fs::read(&path) {
            Ok(data) => data,
            Err(e) => {
                problems.push(format!(
                    "delta {dserial} ({uri}) named by notification serial \
                     {serial} cannot be read: {e}"
                ));
                continue
            }
        };
        if !info.hash().matches(&data) {
            problems.push(format!(
                "delta {dserial} does not have the hash stated in the \
                 notification file"
            ));
        }
        match Delta::parse(data.as_slice()) {
            Err(e) => problems.push(format!(
                "delta {dserial} does not parse: {e}"
            )),
            Ok(delta) => {
                if delta.session_id().to_string() != session
                    || delta.serial() != dserial
                {
                    problems.push(format!(
                        "delta file for {dserial} is for {}/{}",
                        delta.session_id(), delta.serial()
                    ));
                }
                let els = delta.into_elements().into_iter().map(|el| {
                    match el {
                        DeltaElement::Publish(p) => {
                            let (uri, data) = p.unpack();
                            DeltaEl::Publish {
                                uri: canon(&uri), hash: sha256_hex(&data)
                            }
                        }
                        DeltaElement::Update(u) => {
                            let (uri, old, data) = u.unpack();
                            DeltaEl::Update {
                                uri: canon(&uri),
                                old: hex(old.as_slice()),
                                hash: sha256_hex(&data),
                            }
                        }
                        DeltaElement::Withdraw(w) => {
                            let (uri, old) = w.unpack();
                            DeltaEl::Withdraw {
                                uri: canon(&uri),
                                old: hex(old.as_slice()),
                            }
                        }
                    }
                }).collect();
                view.deltas.insert(dserial, els);
            }
        }
    }
    view.delta_serials.sort();

    // The retained deltas form a contiguous run ending at the serial.
    if let Some(last) = view.delta_serials.last() {
        if *last != serial {
            problems.push(format!(
                "the newest delta is {last} but the serial is {serial}"
            ));
        }
        for pair in view.delta_serials.windows(2) {
            if pair[1] != pair[0] + 1 {
                problems.push(format!(
                    "delta list is not contiguous: {:?}", view.delta_serials
                ));
                break
            }
        }
    }
    Ok((view, problems))
}

/// Applies one delta the way a strict client does.
pub fn apply_delta(
    state: &mut ObjSet, serial: u64, els: &[DeltaEl],
) -> Result<(), String> {
    for el in els {
        match el {
            DeltaEl::Publish { uri, hash } => {
                if state.contains_key(uri) {
                    return Err(format!(
                        "delta {serial} publishes {uri} which the client \
                         already has"
                    ))
                }
                state.insert(uri.clone(), hash.clone());
            }
            DeltaEl::Update { uri, old, hash } => {
                match state.get(uri) {
                    Some(have) if have == old => { }
                    Some(_) => return Err(format!(
                        "delta {serial} updates {uri} with a hash that \
                         does not match the client's copy"
                    )),
                    None => return Err(format!(
                        "delta {serial} updates {uri} which the client \
                         does not have"
                    )),
                }
                state.insert(uri.clone(), hash.clone());
            }
            DeltaEl::Withdraw { uri, old } => {
                match state.get(uri) {
                    Some(have) if have == old => { }
                    Some(_) => return Err(format!(
                        "delta {serial} withdraws {uri} with a hash that \
                         does not match the client's copy"
                    )),
                    None => return Err(format!(
                        "delta {serial} withdraws {uri} which the client \
                         does not have"
                    )),
                }
                state.remove(uri);
            }
        }
    }
    Ok(())
}

/// The rsync tree as served: URI -> hash.
pub fn fetch_rsync(repo_dir: &Path, jail: &str) -> Result<ObjSet, String> {
    let root = repo_dir.join("rsync").join("current");
    let mut out = ObjSet::new();
    if !root.exists() {
        return Ok(out)
    }
    let mut stack = vec![root.clone()];
    while let Some(dir) = stack.pop() {
        let mut entries: Vec<_> = std::fs::read_dir(&dir)
            .map_err(|e| format!("cannot list {}: {e}", dir.display()))?
            .filter_map(|e| e.ok()).map(|e| e.path()).collect();
        entries.sort();
        for path in entries {
            if path.is_dir() {
                stack.push(path);
            }
            else {
                let rel = path.strip_prefix(&root).unwrap_or(&path)
                    .to_string_lossy().to_string();
                let data = std::fs::read(&path).map_err(|e| {
                    format!("cannot read {}: {e}", path.display())
                })?;
                out.insert(format!("{jail}{rel}"), sha256_hex(&data));
            }
        }
    }
    Ok(out)
}

/// Renders the first difference between two object sets.
pub fn diff(a_name: &str, a: &ObjSet, b_name: &str, b: &ObjSet) -> Option<String> {
    for (uri, hash) in a {
        match b.get(uri) {
            None => return Some(format!("{uri} is in {a_name} but not in {b_name}")),
            Some(other) if other != hash => {
                return Some(format!("{uri} differs between {a_name} and {b_name}"))
            }
            _ => { }
        }
    }
    for uri in b.keys() {
        if !a.contains_key(uri) {
            return Some(format!("{uri} is in {b_name} but not in {a_name}"))
        }
    }
    None
}

//------------ Client memory -------------------------------------------------

/// Everything a population of clients has seen: for each session the object
/// set at each serial that was ever current at an observation.
#[derive(Clone, Debug, Default)]
pub struct ClientMemory {
    pub session: String,
    pub seen: BTreeMap<u64, ObjSet>,
    /// Simulated time at which each serial was first seen.
    pub first_seen: BTreeMap<u64, i64>,
    pub sessions_seen: u64,
    pub observations: u64,
    pub catch_ups_checked: u64,
    pub max_deltas_seen: usize,
}

impl ClientMemory {
    /// Takes one observation; returns the problems found.
    ///
    /// `reset_expected` says that an explicit session reset happened since
    /// the last observation.
    pub fn observe(
        &mut self, view: &RrdpView, reset_expected: bool, max_nr: usize,
        min_nr: usize, min_seconds: i64, now_secs: i64,
    ) -> Vec<String> {
        let mut problems = Vec::new();
        self.observations += 1;
        self.max_deltas_seen = std::cmp::max(
            self.max_deltas_seen, view.delta_serials.len()
        );
        if view.session == self.session {
            self.first_seen.entry(view.serial).or_insert(now_secs);
        }
        if view.delta_serials.len() > max_nr {
            // The deltas beyond the newest `max_nr`.
            let excess = &view.delta_serials[
                ..view.delta_serials.len() - max_nr
            ];
            // Retention is decided when an update is made: ages count
            // at the time the current serial appeared.
            let t_ref = self.first_seen.get(&view.serial).copied()
                .unwrap_or(now_secs);
            // The minimum rules: `min_nr` deltas besides the new one are
            // always kept, and so is every delta younger than
            // `min_seconds`.
            let all_young = view.session == self.session
                && excess.iter().enumerate().all(|(i, s)| {
                    let within_min_nr = view.delta_serials.len() - i
                        <= min_nr + 1;
                    within_min_nr || self.first_seen.get(s).map(|t| {
                        t_ref - *t <= min_seconds
                    }).unwrap_or(false)
                });
            problems.push(format!(
                "{} deltas are retained, the configured maximum is \
                 {max_nr}{}",
                view.delta_serials.len(),
                if all_young {
                    " (all surplus deltas are covered by the minimum \
                     rules rrdp_delta_files_min_nr / _min_seconds)"
                } else { "" }
            ));
        }
        if view.session != self.session {
            if !self.session.is_empty() && !reset_expected {
                problems.push(format!(
                    "the session changed from {} to {} without a reset",
                    self.session, view.session
                ));
            }
            if !self.session.is_empty() {
                if view.serial != 1 {
                    problems.push(format!(
                        "the new session {} starts at serial {}",
                        view.session, view.serial
                    ));
                }
                if !view.delta_serials.is_empty() {
                    problems.push(format!(
                        "the new session {} offers deltas {:?}",
                        view.session, view.delta_serials
                    ));
                }
            }
            self.session = view.session.clone();
            self.seen.clear();
            self.first_seen.clear();
            self.first_seen.insert(view.serial, now_secs);
            self.sessions_seen += 1;
        }
        else if let Some((&last, _)) = self.seen.iter().next_back() {
            if view.serial < last {
                problems.push(format!(
                    "the serial went back from {last} to {}", view.serial
                ));
            }
        }
        // Same serial seen before: same content.
        if let Some(old) = self.seen.get(&view.serial) {
            if let Some(d) = diff("the earlier snapshot", old, "the snapshot now", &view.snapshot) {
                problems.push(format!(
                    "serial {} was served with different content: {d}",
                    view.serial
                ));
            }
        }
        // Every earlier serial with a contiguous chain must arrive exactly
        // at the snapshot.
        let first_delta = view.delta_serials.first().copied();
        for (&have, state) in &self.seen {
            if have >= view.serial {
                continue
            }
            let Some(first) = first_delta else { continue };
            if first > have + 1 {
                continue
            }
            let mut state = state.clone();
            let mut failed = None;
            for s in (have + 1)..=view.serial {
                let Some(els) = view.deltas.get(&s) else {
                    failed = Some(format!("delta {s} is unusable"));
                    break
                };
                if let Err(err) = apply_delta(&mut state, s, els) {
                    failed = Some(err);
                    break
                }
            }
            self.catch_ups_checked += 1;
            match failed {
                Some(err) => problems.push(format!(
                    "a client at serial {have} cannot follow the deltas to \
                     {}: {err}", view.serial
                )),
                None => {
                    if let Some(d) = diff(
                        "the client after the deltas", &state,
                        "the snapshot", &view.snapshot
                    ) {
                        problems.push(format!(
                            "a client at serial {have} following the deltas \
                             to {} does not arrive at the snapshot: {d}",
                            view.serial
                        ));
                    }
                }
            }
        }
        self.seen.insert(view.serial, view.snapshot.clone());
        // Bound the memory.
        while self.seen.len() > 80 {
            let first = *self.seen.keys().next().unwrap();
            self.seen.remove(&first);
        }
        problems
    }
}
