//! O-RP: a relying-party walk over published content, built on rpki-rs.
//!
//! Input is a map from rsync URI to object bytes (whatever source: the
//! publication server's per-publisher content, a parsed RRDP snapshot, or
//! the rsync tree) plus the TAL and TA certificate. Output is the set of
//! accepted objects, validated payloads, per-CA certificate facts and a list
//! of structural findings.

use std::collections::{BTreeMap, BTreeSet};
use std::sync::Arc;
use bytes::Bytes;
use rpki::crypto::KeyIdentifier;
use rpki::repository::aspa::Aspa;
use rpki::repository::cert::{Cert, ResourceCert};
use rpki::repository::crl::Crl;
use rpki::repository::error::ValidationError;
use rpki::repository::manifest::Manifest;
use rpki::repository::resources::ResourceSet;
use rpki::repository::roa::Roa;
use rpki::repository::tal::Tal;
use rpki::repository::x509::{Serial, Time};
use rpki::uri;

pub type Objects = BTreeMap<String, Bytes>;

#[derive(Clone, Debug, PartialEq, Eq, PartialOrd, Ord, Hash)]
pub struct Vrp {
    pub asn: u32,
    pub prefix: String,
    pub max_len: u8,
}

impl std::fmt::Display for Vrp {
    fn fmt(&self, f: &mut std::fmt::Formatter) -> std::fmt::Result {
        write!(f, "{}-{} => {}", self.prefix, self.max_len, self.asn)
    }
}

#[derive(Clone, Debug, PartialEq, Eq, PartialOrd, Ord)]
pub struct AspaPayload {
    pub customer: u32,
    pub providers: Vec<u32>,
}

#[derive(Clone, Debug, PartialEq, Eq, PartialOrd, Ord)]
pub struct RouterKey {
    pub asn: u32,
    pub key_id: String,
}

#[derive(Clone, Debug)]
pub struct PubPoint {
    pub ca_key: KeyIdentifier,
    pub ca_cert_uri: String,
    pub repo_dir: String,
    pub mft_uri: String,
    pub mft_number: Serial,
    pub mft_this_update: Time,
    pub mft_next_update: Time,
    pub mft_ee_not_after: Time,
    pub crl_uri: String,
    pub crl_number: Serial,
    pub crl_this_update: Time,
    pub crl_next_update: Time,
    pub crl: Crl,
    pub revoked_count: usize,
    /// Listed files (full URIs), excluding the CRL.
    pub products: BTreeSet<String>,
    pub resources: ResourceSet,
    pub depth: usize,
}

/// A certificate or signed object seen in the tree, for the CRL ledger.
#[derive(Clone, Debug)]
pub struct SeenObject {
    pub uri: String,
    pub issuer_key: KeyIdentifier,
    pub serial: Serial,
    pub not_after: Time,
    pub is_manifest: bool,
    pub accepted: bool,
}

#[derive(Clone, Debug)]
pub struct CaCertFact {
    pub uri: String,
    pub issuer_key: KeyIdentifier,
    pub subject_key: KeyIdentifier,
    pub resources: ResourceSet,
    pub serial: Serial,
    pub not_after: Time,
    pub ca_repository: String,
}

#[derive(Clone, Debug, Default)]
pub struct RpResult {
    pub accepted: BTreeSet<String>,
    pub vrps: BTreeSet<Vrp>,
    /// VRPs per signing CA key.
    pub vrps_by_key: BTreeMap<KeyIdentifier, BTreeSet<Vrp>>,
    pub aspas: BTreeSet<AspaPayload>,
    pub aspas_by_key: BTreeMap<KeyIdentifier, BTreeSet<AspaPayload>>,
    pub router_keys: BTreeSet<RouterKey>,
    pub router_keys_by_key: BTreeMap<KeyIdentifier, BTreeSet<RouterKey>>,
    pub pub_points: Vec<PubPoint>,
    pub ca_certs: Vec<CaCertFact>,
    pub seen: Vec<SeenObject>,
    /// Structural and validation findings.
    pub issues: Vec<String>,
    pub ta_key: Option<KeyIdentifier>,
}

impl RpResult {
    pub fn pub_point(&self, key: &KeyIdentifier) -> Option<&PubPoint> {
        self.pub_points.iter().find(|pp| &pp.ca_key == key)
    }
}

pub struct RpInput<'a> {
    pub tal: &'a str,
    pub ta_cert: &'a [u8],
    pub objects: &'a Objects,
    pub strict: bool,
    /// Directories (rsync URIs ending in '/') excluded from "every published
    /// object is accepted" and "present but unlisted" (orphaned or suspended
    /// CAs).
    pub excluded_dirs: &'a BTreeSet<String>,
}

fn dir_of(uri: &str) -> &str {
    match uri.rfind('/') {
        Some(pos) => &uri[..pos + 1],
        None => uri
    }
}

pub fn walk(input: &RpInput) -> RpResult {
    let mut res = RpResult::default();
    let now = Time::now();

    let tal = match Tal::read_named(
        "sim".to_string(), &mut input.tal.as_bytes()
    ) {
        Ok(tal) => tal,
        Err(err) => {
            res.issues.push(format!("TAL does not parse: {err}"));
            return res
        }
    };
    let ta = match Cert::decode(input.ta_cert) {
        Ok(cert) => cert,
        Err(err) => {
            res.issues.push(format!("TA certificate does not decode: {err}"));
            return res
        }
    };
    if ta.subject_public_key_info() != tal.key_info() {
        res.issues.push("TA certificate key differs from TAL key".into());
        return res
    }
    let ta = match ta.validate_ta_at(tal.info().clone(), input.strict, now) {
        Ok(cert) => cert,
        Err(err) => {
            res.issues.push(format!("TA certificate invalid: {err}"));
            return res
        }
    };
    res.ta_key = Some(ta.subject_key_identifier());

    // dir -> union of listed files over all valid manifests naming that dir
    let mut listed: BTreeMap<String, BTreeSet<String>> = BTreeMap::new();
    let mut seen_keys = BTreeSet::new();
    process_ca(
        input, &ta, "<ta.cer>", 0, now, &mut res, &mut listed, &mut seen_keys
    );

    // Present but unlisted / unreachable.
    for uri in input.objects.keys() {
        let dir = dir_of(uri);
        if input.excluded_dirs.iter().any(|ex| uri.starts_with(ex.as_str())) {
            continue
        }
        match listed.get(dir) {
            Some(files) => {
                if !files.contains(uri) {
                    res.issues.push(format!(
                        "present but unlisted: {uri}"
                    ));
                }
            }
            None => {
                res.issues.push(format!(
                    "unreachable object (no valid CA publishes in its \
                     directory): {uri}"
                ));
            }
        }
    }
    res
}

#[allow(clippy::too_many_arguments)]
fn process_ca(
    input: &RpInput,
    ca: &ResourceCert,
    ca_cert_uri: &str,
    depth: usize,
    now: Time,
    res: &mut RpResult,
    listed: &mut BTreeMap<String, BTreeSet<String>>,
    seen_keys: &mut BTreeSet<KeyIdentifier>,
) {
    let ca_key = ca.subject_key_identifier();
    if !seen_keys.insert(ca_key) {
        res.issues.push(format!(
            "CA key {ca_key} reached more than once (loop or duplicate \
             certificate) via {ca_cert_uri}"
        ));
        return
    }
    if depth > 12 {
        res.issues.push(format!("CA chain too deep at {ca_cert_uri}"));
        return
    }
    let Some(mft_uri) = ca.rpki_manifest() else {
        res.issues.push(format!("{ca_cert_uri}: no manifest URI in SIA"));
        return
    };
    let Some(repo_dir) = ca.ca_repository() else {
        res.issues.push(format!("{ca_cert_uri}: no caRepository in SIA"));
        return
    };
    let mft_uri_s = mft_uri.to_string();
    let repo_dir_s = repo_dir.to_string();
    if dir_of(&mft_uri_s) != repo_dir_s {
        res.issues.push(format!(
            "{ca_cert_uri}: manifest {mft_uri_s} not directly under \
             caRepository {repo_dir_s}"
        ));
    }
    let Some(mft_bytes) = input.objects.get(&mft_uri_s) else {
        res.issues.push(format!(
            "publication point of {ca_cert_uri} has no manifest at \
             {mft_uri_s}"
        ));
        return
    };
    let mft = match Manifest::decode(mft_bytes.clone(), input.strict) {
        Ok(mft) => mft,
        Err(err) => {
            res.issues.push(format!("{mft_uri_s}: does not decode: {err}"));
            return
        }
    };
    let mft_ee_serial = mft.cert().serial_number();
    let mft_ee_not_after = mft.cert().validity().not_after();
    let (mft_ee, content) = match mft.validate_at(ca, input.strict, now) {
        Ok(ok) => ok,
        Err(err) => {
            res.issues.push(format!("{mft_uri_s}: invalid: {err}"));
            return
        }
    };
    if content.this_update() > now {
        res.issues.push(format!(
            "{mft_uri_s}: thisUpdate {} is in the future (now {})",
            content.this_update().to_rfc3339(), now.to_rfc3339()
        ));
    }
    if content.next_update() < now {
        res.issues.push(format!(
            "{mft_uri_s}: stale manifest, nextUpdate {} < now {}",
            content.next_update().to_rfc3339(), now.to_rfc3339()
        ));
    }

    // The CRL.
    let Some(crl_uri) = mft_ee.crl_uri() else {
        res.issues.push(format!("{mft_uri_s}: EE has no CRL URI"));
        return
    };
    let crl_uri_s = crl_uri.to_string();
    let mut files: BTreeMap<String, rpki::repository::manifest::ManifestHash>
        = BTreeMap::new();
    for (uri, hash) in content.iter_uris(repo_dir) {
        if files.insert(uri.to_string(), hash).is_some() {
            res.issues.push(format!("{mft_uri_s}: lists {uri} twice"));
        }
    }
    let listed_here = listed.entry(repo_dir_s.clone()).or_default();
    listed_here.insert(mft_uri_s.clone());
    for uri in files.keys() {
        listed_here.insert(uri.clone());
    }

    let Some(crl_hash) = files.get(&crl_uri_s) else {
        res.issues.push(format!(
            "{mft_uri_s}: CRL {crl_uri_s} is not listed on the manifest"
        ));
        return
    };
    let Some(crl_bytes) = input.objects.get(&crl_uri_s) else {
        res.issues.push(format!(
            "listed but missing: {crl_uri_s} (CRL of {mft_uri_s})"
        ));
        return
    };
    if crl_hash.verify(crl_bytes).is_err() {
        res.issues.push(format!("{crl_uri_s}: hash differs from manifest"));
        return
    }
    let mut crl = match Crl::decode(crl_bytes.clone()) {
        Ok(crl) => crl,
        Err(err) => {
            res.issues.push(format!("{crl_uri_s}: does not decode: {err}"));
            return
        }
    };
    if let Err(err) = crl.verify_signature(ca.subject_public_key_info()) {
        res.issues.push(format!("{crl_uri_s}: bad signature: {err}"));
        return
    }
    if crl.authority_key_identifier() != &ca_key {
        res.issues.push(format!("{crl_uri_s}: AKI is not the CA key"));
    }
    if crl.next_update() < now {
        res.issues.push(format!(
            "{crl_uri_s}: stale CRL, nextUpdate {} < now {}",
            crl.next_update().to_rfc3339(), now.to_rfc3339()
        ));
    }
    if crl.this_update() > now {
        res.issues.push(format!("{crl_uri_s}: thisUpdate in the future"));
    }
    crl.cache_serials();
    if crl.contains(mft_ee_serial) {
        res.issues.push(format!("{mft_uri_s}: EE certificate is revoked"));
        return
    }
    let revoked_count = crl.revoked_certs().iter().count();

    res.accepted.insert(mft_uri_s.clone());
    res.accepted.insert(crl_uri_s.clone());
    res.seen.push(SeenObject {
        uri: mft_uri_s.clone(),
        issuer_key: ca_key,
        serial: mft_ee_serial,
        not_after: mft_ee_not_after,
        is_manifest: true,
        accepted: true,
    });

    let ca_resources = ResourceSet::try_from(ca.as_ref() as &Cert)
        .unwrap_or_else(|_| ResourceSet::default());

    let mut pp = PubPoint {
        ca_key,
        ca_cert_uri: ca_cert_uri.to_string(),
        repo_dir: repo_dir_s.clone(),
        mft_uri: mft_uri_s.clone(),
        mft_number: content.manifest_number(),
        mft_this_update: content.this_update(),
        mft_next_update: content.next_update(),
        mft_ee_not_after,
        crl_uri: crl_uri_s.clone(),
        crl_number: crl.crl_number(),
        crl_this_update: crl.this_update(),
        crl_next_update: crl.next_update(),
        crl: crl.clone(),
        revoked_count,
        products: BTreeSet::new(),
        resources: ca_resources,
        depth,
    };

    let mut children: Vec<(ResourceCert, String)> = Vec::new();

    for (uri, hash) in &files {
        if uri == &crl_uri_s {
            continue
        }
        pp.products.insert(uri.clone());
        let Some(bytes) = input.objects.get(uri) else {
            res.issues.push(format!(
                "listed but missing: {uri} (on {mft_uri_s})"
            ));
            continue
        };
        if hash.verify(bytes).is_err() {
            res.issues.push(format!("{uri}: hash differs from manifest"));
            continue
        }
        let check_crl = |cert: &Cert| -> Result<(), ValidationError> {
            if crl.contains(cert.serial_number()) {
                Err(rpki::repository::error::VerificationError::new(
                    "certificate revoked"
                ).into())
            }
            else {
                Ok(())
            }
        };
        if uri.ends_with(".cer") {
            let cert = match Cert::decode(bytes.clone()) {
                Ok(cert) => cert,
                Err(err) => {
                    res.issues.push(format!("{uri}: does not decode: {err}"));
                    continue
                }
            };
            let serial = cert.serial_number();
            let not_after = cert.validity().not_after();
            let mut seen = SeenObject {
                uri: uri.clone(), issuer_key: ca_key, serial, not_after,
                is_manifest: false, accepted: false,
            };
            if crl.contains(serial) {
                res.issues.push(format!("{uri}: certificate is revoked"));
                res.seen.push(seen);
                continue
            }
            if cert.basic_ca() == Some(true) {
                match cert.validate_ca_at(ca, input.strict, now) {
                    Ok(child) => {
                        seen.accepted = true;
                        res.accepted.insert(uri.clone());
                        let resources = ResourceSet::try_from(
                            child.as_ref() as &Cert
                        ).unwrap_or_default();
                        res.ca_certs.push(CaCertFact {
                            uri: uri.clone(),
                            issuer_key: ca_key,
                            subject_key: child.subject_key_identifier(),
                            resources,
                            serial,
                            not_after,
                            ca_repository: child.ca_repository()
                                .map(|u| u.to_string()).unwrap_or_default(),
                        });
                        children.push((child, uri.clone()));
                    }
                    Err(err) => {
                        res.issues.push(format!(
                            "{uri}: invalid CA certificate: {err}"
                        ));
                    }
                }
            }
            else {
                match cert.validate_router_at(ca, input.strict, now) {
                    Ok(()) => {
                        seen.accepted = true;
                        res.accepted.insert(uri.clone());
                        let key_id = cert.subject_key_identifier().to_string();
                        let asns = ResourceSet::try_from(&cert)
                            .unwrap_or_default();
                        for asn in expand_asns(&asns) {
                            let rk = RouterKey { asn, key_id: key_id.clone() };
                            res.router_keys_by_key.entry(ca_key)
                                .or_default().insert(rk.clone());
                            res.router_keys.insert(rk);
                        }
                    }
                    Err(err) => {
                        res.issues.push(format!(
                            "{uri}: invalid router certificate: {err}"
                        ));
                    }
                }
            }
            res.seen.push(seen);
        }
        else if uri.ends_with(".roa") {
            let roa = match Roa::decode(bytes.clone(), input.strict) {
                Ok(roa) => roa,
                Err(err) => {
                    res.issues.push(format!("{uri}: does not decode: {err}"));
                    continue
                }
            };
            let mut seen = SeenObject {
                uri: uri.clone(), issuer_key: ca_key,
                serial: roa.cert().serial_number(),
                not_after: roa.cert().validity().not_after(),
                is_manifest: false, accepted: false,
            };
            match roa.process(ca, input.strict, check_crl) {
                Ok((_, content)) => {
                    seen.accepted = true;
                    res.accepted.insert(uri.clone());
                    let asn = content.as_id().into_u32();
                    for addr in content.iter() {
                        let vrp = Vrp {
                            asn,
                            prefix: format!(
                                "{}/{}", addr.address(), addr.address_length()
                            ),
                            max_len: addr.max_length(),
                        };
                        res.vrps_by_key.entry(ca_key).or_default()
                            .insert(vrp.clone());
                        res.vrps.insert(vrp);
                    }
                }
                Err(err) => {
                    res.issues.push(format!("{uri}: invalid ROA: {err}"));
                }
            }
            res.seen.push(seen);
        }
        else if uri.ends_with(".asa") {
            let aspa = match Aspa::decode(bytes.clone(), input.strict) {
                Ok(aspa) => aspa,
                Err(err) => {
                    res.issues.push(format!("{uri}: does not decode: {err}"));
                    continue
                }
            };
            let mut seen = SeenObject {
                uri: uri.clone(), issuer_key: ca_key,
                serial: aspa.cert().serial_number(),
                not_after: aspa.cert().validity().not_after(),
                is_manifest: false, accepted: false,
            };
            match aspa.process(ca, input.strict, check_crl) {
                Ok((_, content)) => {
                    seen.accepted = true;
                    res.accepted.insert(uri.clone());
                    let payload = AspaPayload {
                        customer: content.customer_as().into_u32(),
                        providers: content.provider_as_set().iter()
                            .map(|asn| asn.into_u32()).collect(),
                    };
                    res.aspas_by_key.entry(ca_key).or_default()
                        .insert(payload.clone());
                    res.aspas.insert(payload);
                }
                Err(err) => {
                    res.issues.push(format!("{uri}: invalid ASPA: {err}"));
                }
            }
            res.seen.push(seen);
        }
        else {
            res.issues.push(format!("{uri}: unknown object type listed"));
        }
    }
    res.pub_points.push(pp);

    for (child, uri) in children {
        process_ca(
            input, &child, &uri, depth + 1, now, res, listed, seen_keys
        );
    }
}

/// Expands the AS resources of a set into individual numbers (router
/// certificates carry very few).
pub fn expand_asns(set: &ResourceSet) -> Vec<u32> {
    let mut out = Vec::new();
    for block in set.asn().iter() {
        let min = block.min().into_u32();
        let max = block.max().into_u32();
        if max - min > 64 {
            out.push(min);
            out.push(max);
        }
        else {
            for asn in min..=max {
                out.push(asn);
            }
        }
    }
    out
}

/// Collects everything the publication server holds into a URI map.
pub fn collect_objects(
    krill: &krill::server::runtime::KrillRuntime,
) -> Result<(Objects, BTreeMap<String, BTreeSet<String>>), String> {
    let repo = krill.repo_manager();
    let mut objects = Objects::new();
    let mut by_publisher = BTreeMap::new();
    let mut publishers = repo.publishers().map_err(|e| e.to_string())?;
    publishers.sort_by_key(|p| p.to_string());
    for publisher in publishers {
        let details = repo.get_publisher_details(publisher.clone())
            .map_err(|e| e.to_string())?;
        let mut uris = BTreeSet::new();
        for file in details.current_files {
            let uri = file.uri.to_string();
            uris.insert(uri.clone());
            objects.insert(uri, file.base64.to_bytes());
        }
        by_publisher.insert(publisher.to_string(), uris);
    }
    Ok((objects, by_publisher))
}

pub fn _unused(_: Arc<()>, _: uri::Rsync) {}
