//! The world: instances, API drivers, pumping, repository access.

use std::collections::{BTreeMap, BTreeSet};
use std::path::{Path, PathBuf};
use std::str::FromStr;
use bytes::Bytes;
use rpki::ca::idexchange::{CaHandle, ChildHandle, ParentHandle, PublisherHandle};
use rpki::repository::resources::ResourceSet;
use krill::api;
use krill::commons::error::Error as KrillError;
use crate::hooks;
use crate::rp;
use crate::seams;
use crate::util::block_on;
use crate::world::{guarded, Guarded, Instance, InstCfg, ADMIN};

pub type OpResult = Result<(), String>;

pub fn err_string(err: impl Into<KrillError>) -> String {
    let err: KrillError = err.into();
    format!("{}: {}", err.to_error_response().label, err)
}

pub struct World {
    pub base: PathBuf,
    pub insts: Vec<Instance>,
    /// Statistics.
    pub pump_rounds: u64,
    pub sim_secs: i64,
    pub start_secs: i64,
}

pub fn handle(name: &str) -> CaHandle {
    CaHandle::from_str(name).expect("valid handle")
}

pub fn resources(asn: &str, v4: &str, v6: &str) -> ResourceSet {
    ResourceSet::from_strs(asn, v4, v6).expect("valid resources")
}

impl World {
    pub fn new(base: &Path, start_secs: i64) -> Self {
        seams::set_now_secs(start_secs);
        World {
            base: base.to_path_buf(),
            insts: Vec::new(),
            pump_rounds: 0,
            sim_secs: 0,
            start_secs,
        }
    }

    pub fn add_instance(&mut self, cfg: InstCfg) -> usize {
        let idx = self.insts.len();
        self.insts.push(Instance::new(idx, cfg, &self.base));
        idx
    }

    pub fn inst(&self, idx: usize) -> &Instance {
        &self.insts[idx]
    }

    pub fn advance(&mut self, secs: i64) {
        seams::advance_secs(secs);
        self.sim_secs += secs;
    }

    //--- Pumping

    /// Runs the real scheduler of every running instance until nothing is
    /// due, jumping the clock to tasks that become due within `horizon`
    /// seconds, until the observable digest is stable.
    ///
    /// Returns `Ok(true)` if caught up, `Ok(false)` if the round limit was
    /// hit while the digest kept changing.
    pub fn pump(&mut self, horizon: i64, max_rounds: usize) -> Guarded<bool> {
        let mut last_digest = String::new();
        let mut stable = 0;
        for _round in 0..max_rounds {
            self.pump_rounds += 1;
            for idx in 0..self.insts.len() {
                if !self.insts[idx].is_up() {
                    continue
                }
                match guarded(|| self.insts[idx].run_scheduler()) {
                    Guarded::Ok(()) => { }
                    Guarded::Crash => return Guarded::Crash,
                    Guarded::Fatal(msg) => return Guarded::Fatal(msg),
                    Guarded::Panic(msg) => return Guarded::Panic(msg),
                    Guarded::Abort => return Guarded::Abort,
                }
            }
            // Anything due soon?
            let now_ms = seams::now_ns() as i128 / 1_000_000;
            let mut next: Option<i128> = None;
            for inst in &self.insts {
                if !inst.is_up() {
                    continue
                }
                let skew_ms = inst.skew_secs as i128 * 1000;
                for (ts, _name) in inst.pending_tasks() {
                    let due = ts as i128 - skew_ms;
                    if due <= now_ms + horizon as i128 * 1000 {
                        next = Some(match next {
                            Some(n) => std::cmp::min(n, due),
                            None => due
                        });
                    }
                }
            }
            let digest = self.digest();
            if digest == last_digest {
                stable += 1;
            }
            else {
                stable = 0;
                last_digest = digest;
            }
            match next {
                None => return Guarded::Ok(true),
                Some(due) => {
                    if stable >= 2 {
                        // Only unproductive retries are left.
                        return Guarded::Ok(true)
                    }
                    if due > now_ms {
                        let delta_ms = due - now_ms;
                        let secs = ((delta_ms + 999) / 1000) as i64;
                        self.advance(secs);
                    }
                }
            }
        }
        Guarded::Ok(false)
    }

    /// A digest of the observable state of all running instances.
    pub fn digest(&self) -> String {
        hooks::with_faults_suspended(|| {
            let mut text = String::new();
            for inst in &self.insts {
                if !inst.is_up() {
                    continue
                }
                let rt = inst.rt();
                let mut cas = rt.ca_manager().ca_handles().unwrap_or_default();
                cas.sort_by_key(|c| c.to_string());
                for ca in cas {
                    if let Ok(ca) = rt.ca_manager().get_ca(&ca) {
                        use krill::commons::eventsourcing::Aggregate;
                        text.push_str(&format!(
                            "{}:{};", ca.handle(), ca.version()
                        ));
                    }
                }
                if let Ok(proxy) = rt.ca_manager().get_trust_anchor_proxy() {
                    use krill::commons::eventsourcing::Aggregate;
                    text.push_str(&format!("ta:{};", proxy.version()));
                }
                if let Ok(stats) = rt.repo_manager().repo_stats() {
                    text.push_str(&format!(
                        "repo:{}:{};", stats.session, stats.serial
                    ));
                }
                if let Ok((objects, _)) = rp::collect_objects(rt) {
                    for (uri, bytes) in objects {
                        text.push_str(&uri);
                        text.push_str(&crate::util::sha256_hex(&bytes)[..16]);
                    }
                }
            }
            crate::util::sha256_hex(text.as_bytes())
        })
    }

    //--- API drivers (the calls the HTTP handlers make)

    pub fn create_ca(&self, i: usize, ca: &str) -> OpResult {
        let inst = self.inst(i);
        inst.enter();
        let mgr = inst.mgr();
        match block_on(
            mgr.ca_init(api::admin::CertAuthInit { handle: handle(ca) })
        ) {
            Ok(()) => Ok(()),
            Err(err) => {
                let text = err_string(err);
                if text.starts_with("ca-duplicate") {
                    // Re-submission after an interruption: carry on.
                    Ok(())
                }
                else {
                    Err(text)
                }
            }
        }
    }

    /// Registers the CA as a publisher at the repository of instance `r` and
    /// configures the CA with the response.
    pub fn setup_repo(&self, i: usize, ca: &str, r: usize) -> OpResult {
        let inst = self.inst(i);
        inst.enter();
        if block_on(inst.mgr().ca_repo_details(handle(ca))).is_ok() {
            // Already configured (re-submission after an interruption).
            return Ok(())
        }
        let req = block_on(inst.mgr().ca_publisher_req(handle(ca)))
            .map_err(err_string)?;
        let repo = self.inst(r);
        repo.enter();
        let publisher = req.publisher_handle().clone();
        let response = match block_on(repo.mgr().add_publisher(req, ADMIN)) {
            Ok(response) => response,
            Err(err) => {
                let text = err_string(err);
                if !text.starts_with("pub-duplicate") {
                    return Err(text)
                }
                block_on(repo.mgr().repository_response(publisher))
                    .map_err(err_string)?
            }
        };
        inst.enter();
        let contact = api::admin::RepositoryContact::try_from_response(
            response
        ).map_err(err_string)?;
        block_on(inst.mgr().ca_repo_update(handle(ca), contact, ADMIN))
            .map_err(err_string)?;
        Ok(())
    }

    /// Adds `child` (hosted on instance `ci`) under `parent` (hosted on
    /// instance `pi`; "ta" for the trust anchor) with the given entitlement.
    pub fn add_child(
        &self, pi: usize, parent: &str, ci: usize, child: &str,
        child_name_at_parent: &str, parent_name_at_child: &str,
        res: &ResourceSet, resume: bool,
    ) -> OpResult {
        let cinst = self.inst(ci);
        cinst.enter();
        let child_req = block_on(cinst.mgr().ca_child_req(handle(child)))
            .map_err(err_string)?;
        let id_cert = child_req.validate().map_err(|e| e.to_string())?;
        let req = api::admin::AddChildRequest {
            handle: ChildHandle::from_str(child_name_at_parent).unwrap(),
            resources: res.clone(),
            id_cert,
        };
        let pinst = self.inst(pi);
        pinst.enter();
        let child_handle = req.handle.clone();
        let response = if parent == "ta" {
            block_on(pinst.mgr().ta_proxy_children_add(req, ADMIN))
        }
        else {
            block_on(pinst.mgr().ca_add_child(handle(parent), req, ADMIN))
        };
        let response = match response {
            Ok(response) => response,
            Err(err) => {
                let text = err_string(err);
                if !text.starts_with("ca-child-duplicate") || !resume {
                    return Err(text)
                }
                block_on(pinst.mgr().ca_parent_response(
                    handle(parent), child_handle
                )).map_err(err_string)?
            }
        };
        cinst.enter();
        let parent_req = api::admin::ParentCaReq {
            handle: ParentHandle::from_str(parent_name_at_child).unwrap(),
            response,
        };
        block_on(cinst.mgr().ca_parent_add_or_update(
            handle(child), parent_req, ADMIN
        )).map_err(err_string)?;
        Ok(())
    }

    pub fn roa_update(
        &self, i: usize, ca: &str, add: &[&str], remove: &[&str],
    ) -> OpResult {
        let inst = self.inst(i);
        inst.enter();
        let updates = api::roa::RoaConfigurationUpdates {
            added: add.iter().map(|s| {
                api::roa::RoaConfiguration::from_str(s).expect("roa config")
            }).collect(),
            removed: remove.iter().map(|s| {
                api::roa::RoaPayload::from_str(s).expect("roa payload")
            }).collect(),
        };
        block_on(inst.mgr().ca_routes_update(handle(ca), updates, ADMIN))
            .map_err(err_string)
    }

    //--- Repository access

    /// Everything the publication server of instance `i` holds.
    pub fn objects(&self, i: usize) -> Result<
        (rp::Objects, BTreeMap<String, BTreeSet<String>>), String
    > {
        hooks::with_faults_suspended(|| {
            self.inst(i).enter();
            rp::collect_objects(self.inst(i).rt())
        })
    }

    pub fn tal_and_cert(&self, i: usize) -> Result<(String, Bytes), String> {
        hooks::with_faults_suspended(|| {
            let inst = self.inst(i);
            inst.enter();
            let tal = block_on(inst.mgr().ta_tal()).map_err(err_string)?;
            let cer = block_on(inst.mgr().ta_cer()).map_err(err_string)?;
            Ok((tal, cer))
        })
    }

    /// Runs the relying-party walk over the publication server content.
    pub fn rp_walk(
        &self, i: usize, excluded_dirs: &BTreeSet<String>,
    ) -> Result<rp::RpResult, String> {
        let (objects, _) = self.objects(i)?;
        let (tal, cer) = self.tal_and_cert(i)?;
        self.inst(i).enter();
        Ok(rp::walk(&rp::RpInput {
            tal: &tal,
            ta_cert: cer.as_ref(),
            objects: &objects,
            strict: true,
            excluded_dirs,
        }))
    }

    pub fn publishers(&self, i: usize) -> Vec<PublisherHandle> {
        hooks::with_faults_suspended(|| {
            self.inst(i).rt().repo_manager().publishers().unwrap_or_default()
        })
    }
}
