//! C06: state rebuilt from the audit log equals the live state (O-REBUILD).
//!
//! For every event-sourced entity three views are compared:
//! (a) the live manager's view,
//! (b) a fresh store on the same storage (latest snapshot + later commands),
//! (c) a fresh store on a copy of the storage with every snapshot removed
//!     (init + all commands).
//! Replays run under `catch_unwind`; a panic or an error is a violation.

use serde_json::Value;
use krill::commons::eventsourcing::{Aggregate, AggregateStore};
use krill::commons::storage::{Ident, StorageSystem};
use krill::constants::{
    CASERVER_NS, PROPERTIES_NS, PUBSERVER_NS, SIGNERS_NS, TA_PROXY_SERVER_NS,
    TA_SIGNER_SERVER_NS,
};
use crate::history::Runner;
use crate::hooks;
use crate::world::{guarded, Guarded};

/// Removes the two wall-clock fields that an `apply` fills from the clock.
fn mask(value: &mut Value) {
    match value {
        Value::Object(map) => {
            map.remove("last_key_change");
            map.remove("since");
            for v in map.values_mut() {
                mask(v);
            }
        }
        Value::Array(items) => {
            for v in items.iter_mut() {
                mask(v);
            }
        }
        _ => { }
    }
}

/// Sorts arrays (API lists built from hash maps have no defined order).
fn sort_arrays(value: &mut Value) {
    match value {
        Value::Object(map) => {
            for v in map.values_mut() {
                sort_arrays(v);
            }
        }
        Value::Array(items) => {
            for v in items.iter_mut() {
                sort_arrays(v);
            }
            items.sort_by_key(|v| v.to_string());
        }
        _ => { }
    }
}

fn first_difference(a: &Value, b: &Value, path: &str) -> Option<String> {
    match (a, b) {
        (Value::Object(x), Value::Object(y)) => {
            for (k, v) in x {
                match y.get(k) {
                    Some(w) => {
                        if let Some(d) = first_difference(
                            v, w, &format!("{path}/{k}")
                        ) {
                            return Some(d)
                        }
                    }
                    None => return Some(format!("{path}/{k}: missing in second")),
                }
            }
            for k in y.keys() {
                if !x.contains_key(k) {
                    return Some(format!("{path}/{k}: missing in first"))
                }
            }
            None
        }
        (Value::Array(x), Value::Array(y)) => {
            if x.len() != y.len() {
                return Some(format!(
                    "{path}: array length {} vs {}", x.len(), y.len()
                ))
            }
            for (i, (v, w)) in x.iter().zip(y).enumerate() {
                if let Some(d) = first_difference(v, w, &format!("{path}[{i}]")) {
                    return Some(d)
                }
            }
            None
        }
        _ => {
            if a == b { None } else {
                let sa = a.to_string();
                let sb = b.to_string();
                Some(format!(
                    "{path}: {} vs {}",
                    &sa[..std::cmp::min(sa.len(), 80)],
                    &sb[..std::cmp::min(sb.len(), 80)]
                ))
            }
        }
    }
}

/// Copies a namespace into a fresh in-memory storage, dropping snapshots.
fn copy_without_snapshots(
    storage: &StorageSystem, ns: &Ident, tag: u64,
) -> Result<StorageSystem, String> {
    let scratch = StorageSystem::new_memory(Some(tag));
    let src = storage.open(ns).map_err(|e| e.to_string())?;
    let dst = scratch.open(ns).map_err(|e| e.to_string())?;
    dst.import(&src).map_err(|e| e.to_string())?;
    let snapshot = Ident::make("snapshot.json");
    for scope in dst.scopes().map_err(|e| e.to_string())? {
        if dst.has(Some(&scope), snapshot).map_err(|e| e.to_string())? {
            dst.drop_key(Some(&scope), snapshot).map_err(|e| e.to_string())?;
        }
    }
    Ok(scratch)
}

/// Loads all instances of an aggregate type from a store into JSON.
fn load_all<A: Aggregate>(
    storage: &StorageSystem, ns: &Ident,
) -> Result<Vec<(String, Value)>, String> {
    let store = AggregateStore::<A>::create(storage, ns, false)
        .map_err(|e| e.to_string())?;
    let mut handles = store.list().map_err(|e| e.to_string())?;
    handles.sort_by_key(|h| h.to_string());
    let mut out = Vec::new();
    for handle in handles {
        let agg = store.get_latest(&handle).map_err(|e| {
            format!("loading {handle}: {e}")
        })?;
        let mut value = serde_json::to_value(agg.as_ref())
            .map_err(|e| e.to_string())?;
        mask(&mut value);
        out.push((handle.to_string(), value));
    }
    Ok(out)
}

fn compare_lists(
    r: &mut Runner, what: &str, first: &str, second: &str,
    a: &[(String, Value)], b: &[(String, Value)],
) {
    let names_a: Vec<&String> = a.iter().map(|x| &x.0).collect();
    let names_b: Vec<&String> = b.iter().map(|x| &x.0).collect();
    if names_a != names_b {
        r.violation(
            "C06", "entities_differ",
            format!("{what}: {first} has {names_a:?}, {second} has {names_b:?}")
        );
        return
    }
    for ((name, x), (_, y)) in a.iter().zip(b) {
        r.ext_c06_compared += 1;
        if let Some(diff) = first_difference(x, y, "") {
            r.violation(
                "C06", "state_differs",
                format!(
                    "{what} '{name}': {first} and {second} differ at {diff}"
                )
            );
        }
    }
}

fn check_type<A: Aggregate>(
    r: &mut Runner, inst: usize, what: &str, ns: &Ident,
    live: Option<Vec<(String, Value)>>,
) {
    let storage_b;
    let from_snapshot;
    let from_scratch;
    {
        let i = r.world.inst(inst);
        let storage = i.rt().storage();
        storage_b = guarded(|| {
            hooks::with_faults_suspended(|| load_all::<A>(storage, ns))
        });
        let tag = 0xC06_0000 + (r.step as u64) * 16 + inst as u64;
        from_scratch = guarded(|| {
            hooks::with_faults_suspended(|| {
                let scratch = copy_without_snapshots(storage, ns, tag)?;
                load_all::<A>(&scratch, ns)
            })
        });
    }
    from_snapshot = match storage_b {
        Guarded::Ok(Ok(list)) => list,
        Guarded::Ok(Err(err)) => {
            r.violation(
                "C06", "replay_fails",
                format!("{what}: loading from snapshot + commands fails: {err}")
            );
            return
        }
        other => {
            r.violation(
                "C06", "replay_panics",
                format!("{what}: loading from snapshot + commands: {other:?}")
            );
            return
        }
    };
    let from_scratch = match from_scratch {
        Guarded::Ok(Ok(list)) => list,
        Guarded::Ok(Err(err)) => {
            r.violation(
                "C06", "replay_fails",
                format!("{what}: replaying init + all commands fails: {err}")
            );
            return
        }
        other => {
            r.violation(
                "C06", "replay_panics",
                format!("{what}: replaying init + all commands: {other:?}")
            );
            return
        }
    };
    compare_lists(
        r, what, "snapshot+commands", "init+all commands",
        &from_snapshot, &from_scratch
    );
    if let Some(live) = live {
        compare_lists(
            r, what, "live", "snapshot+commands", &live, &from_snapshot
        );
    }
}

pub fn check(r: &mut Runner) {
    for inst in 0..r.world.insts.len() {
        if !r.world.inst(inst).is_up() {
            continue
        }
        r.world.inst(inst).enter();
        // Live views.
        let live_cas = hooks::with_faults_suspended(|| {
            let rt = r.world.inst(inst).rt();
            let mut handles = rt.ca_manager().ca_handles().unwrap_or_default();
            handles.sort_by_key(|h| h.to_string());
            let mut out = Vec::new();
            for handle in handles {
                if let Ok(ca) = rt.ca_manager().get_ca(&handle) {
                    let mut value = serde_json::to_value(ca.as_ref())
                        .unwrap_or_default();
                    mask(&mut value);
                    out.push((handle.to_string(), value));
                }
            }
            out
        });
        let live_proxy = hooks::with_faults_suspended(|| {
            r.world.inst(inst).rt().ca_manager().get_trust_anchor_proxy()
                .ok().map(|p| {
                    let mut value = serde_json::to_value(p.as_ref())
                        .unwrap_or_default();
                    mask(&mut value);
                    vec![("ta".to_string(), value)]
                })
        });
        let live_signer = hooks::with_faults_suspended(|| {
            r.world.inst(inst).rt().ca_manager().get_trust_anchor_signer()
                .ok().map(|p| {
                    let mut value = serde_json::to_value(p.as_ref())
                        .unwrap_or_default();
                    mask(&mut value);
                    vec![("ta".to_string(), value)]
                })
        });
        check_type::<krill::server::ca::CertAuth>(
            r, inst, "CA", CASERVER_NS, Some(live_cas)
        );
        if live_proxy.is_some() {
            check_type::<krill::server::taproxy::TrustAnchorProxy>(
                r, inst, "TA proxy", TA_PROXY_SERVER_NS, live_proxy
            );
        }
        if live_signer.is_some() {
            check_type::<krill::tasigner::TrustAnchorSigner>(
                r, inst, "TA signer", TA_SIGNER_SERVER_NS, live_signer
            );
        }
        check_type::<krill::server::pubd::RepositoryAccess>(
            r, inst, "repository access", PUBSERVER_NS, None
        );
        check_type::<krill::commons::crypto::dispatch::signerinfo::SignerInfo>(
            r, inst, "signer info", SIGNERS_NS, None
        );
        check_type::<krill::server::properties::Properties>(
            r, inst, "properties", PROPERTIES_NS, None
        );
        check_api_views(r, inst);
        check_repo_content(r, inst);
    }
}

/// API info structures from the live manager and from a second manager built
/// on the same storage must agree.
fn check_api_views(r: &mut Runner, inst: usize) {
    let res = guarded(|| hooks::with_faults_suspended(|| {
        let i = r.world.inst(inst);
        let rt = i.rt();
        let fresh = krill::server::ca::CaManager::new(rt.config(), rt.storage())
            .map_err(|e| e.to_string())?;
        let mut problems = Vec::new();
        let mut handles = rt.ca_manager().ca_handles().unwrap_or_default();
        handles.sort_by_key(|h| h.to_string());
        for handle in handles {
            let live = rt.ca_manager().get_ca(&handle)
                .map_err(|e| e.to_string())?;
            let other = fresh.get_ca(&handle).map_err(|e| {
                format!("fresh manager cannot load {handle}: {e}")
            })?;
            let mut a = serde_json::to_value(live.as_ca_info()).unwrap_or_default();
            let mut b = serde_json::to_value(other.as_ca_info()).unwrap_or_default();
            mask(&mut a);
            mask(&mut b);
            sort_arrays(&mut a);
            sort_arrays(&mut b);
            // The union of the classes' resources is rendered by
            // rpki-rs in a form that depends on the iteration order of a
            // hash map when classes overlap (see known findings); compare
            // it as a set and report a textual difference separately.
            let ra = a.as_object_mut().and_then(|m| m.remove("resources"));
            let rb = b.as_object_mut().and_then(|m| m.remove("resources"));
            if ra != rb {
                let canon = |v: &Option<Value>| -> String {
                    let get = |k: &str| v.as_ref().and_then(|v| v.get(k))
                        .and_then(|x| x.as_str()).unwrap_or("").to_string();
                    match rpki::repository::resources::ResourceSet::from_strs(
                        &get("asn"), &get("ipv4"), &get("ipv6")
                    ) {
                        Ok(set) => crate::model::Res::from_set(&set).to_string(),
                        Err(_) => "unparsable".to_string(),
                    }
                };
                if canon(&ra) == canon(&rb) {
                    problems.push(format!(
                        "TEXT:CertAuthInfo of {handle}: resources are the \
                         same set but rendered differently: {} vs {}",
                        ra.map(|v| v.to_string()).unwrap_or_default(),
                        rb.map(|v| v.to_string()).unwrap_or_default()
                    ));
                }
                else {
                    problems.push(format!(
                        "CertAuthInfo of {handle}: /resources differ: {:?} \
                         vs {:?}", ra, rb
                    ));
                }
            }
            if let Some(d) = first_difference(&a, &b, "") {
                problems.push(format!("CertAuthInfo of {handle}: {d}"));
            }
            let mut ra = serde_json::to_value(live.configured_roas())
                .unwrap_or_default();
            let mut rb = serde_json::to_value(other.configured_roas())
                .unwrap_or_default();
            sort_arrays(&mut ra);
            sort_arrays(&mut rb);
            if let Some(d) = first_difference(&ra, &rb, "") {
                problems.push(format!(
                    "configured ROAs of {handle} differ: {d}"
                ));
            }
            for child in live.as_ca_info().children {
                let ca = live.get_child(&child).map(|c| {
                    serde_json::to_string(&c.to_info()).unwrap_or_default()
                }).unwrap_or_default();
                let cb = other.get_child(&child).map(|c| {
                    serde_json::to_string(&c.to_info()).unwrap_or_default()
                }).unwrap_or_default();
                if ca != cb {
                    problems.push(format!(
                        "child info {child} of {handle} differs"
                    ));
                }
            }
            // The status view survives a restart as well.
            // Compared as values: the maps in it have no order.
            let mut sa = serde_json::to_value(
                rt.ca_manager().get_ca_status(&handle).ok()
            ).unwrap_or_default();
            let mut sb = serde_json::to_value(
                fresh.get_ca_status(&handle).ok()
            ).unwrap_or_default();
            sort_arrays(&mut sa);
            sort_arrays(&mut sb);
            if sa != sb {
                let diff = first_difference(&sa, &sb, "")
                    .unwrap_or_default();
                let diff: String = diff.chars().take(400).collect();
                problems.push(format!(
                    "C19:status view of {handle} differs between the live \
                     daemon and a reload from the same storage: {diff}"
                ));
            }
        }
        Ok::<_, String>(problems)
    }));
    match res {
        Guarded::Ok(Ok(problems)) => {
            for p in problems {
                if let Some(p) = p.strip_prefix("C19:") {
                    r.violation("C19", "status_after_restart", p.to_string());
                }
                else if let Some(p) = p.strip_prefix("TEXT:") {
                    r.violation(
                        "C06", "api_resources_rendering_differs",
                        p.to_string()
                    );
                }
                else {
                    r.violation("C06", "api_view_differs", p);
                }
            }
        }
        Guarded::Ok(Err(err)) => {
            r.violation("C06", "replay_fails", err);
        }
        other => {
            r.violation(
                "C06", "replay_panics",
                format!("second CA manager on the same storage: {other:?}")
            );
        }
    }
}

/// The repository content log: a second repository manager on the same
/// storage (snapshot + remaining WAL sets) must show what the live one does.
fn check_repo_content(r: &mut Runner, inst: usize) {
    let res = guarded(|| hooks::with_faults_suspended(|| {
        let i = r.world.inst(inst);
        let rt = i.rt();
        if !rt.repo_manager().is_initialized().unwrap_or(false) {
            return Ok(Vec::new())
        }
        let fresh = krill::server::pubd::RepositoryManager::new(
            rt.config(), rt.storage()
        ).map_err(|e| e.to_string())?;
        let mut problems = Vec::new();
        let mut a = rt.repo_manager().publishers().map_err(|e| e.to_string())?;
        let mut b = fresh.publishers().map_err(|e| e.to_string())?;
        a.sort_by_key(|p| p.to_string());
        b.sort_by_key(|p| p.to_string());
        if a != b {
            problems.push(format!("publisher lists differ: {a:?} vs {b:?}"));
            return Ok(problems)
        }
        for publisher in a {
            let x = rt.repo_manager().get_publisher_details(publisher.clone())
                .map_err(|e| e.to_string())?;
            let y = fresh.get_publisher_details(publisher.clone())
                .map_err(|e| e.to_string())?;
            let mut fx: Vec<(String, String)> = x.current_files.iter()
                .map(|f| (f.uri.to_string(), f.base64.to_string())).collect();
            let mut fy: Vec<(String, String)> = y.current_files.iter()
                .map(|f| (f.uri.to_string(), f.base64.to_string())).collect();
            fx.sort();
            fy.sort();
            if fx != fy || x.base_uri != y.base_uri {
                problems.push(format!(
                    "content of publisher {publisher} differs between the \
                     live server and a reload"
                ));
            }
        }
        let sa = rt.repo_manager().repo_stats().map_err(|e| e.to_string())?;
        let sb = fresh.repo_stats().map_err(|e| e.to_string())?;
        if sa.serial != sb.serial || sa.session != sb.session {
            problems.push(format!(
                "RRDP session/serial differ: {}/{} vs {}/{}",
                sa.session, sa.serial, sb.session, sb.serial
            ));
        }
        Ok::<_, String>(problems)
    }));
    match res {
        Guarded::Ok(Ok(problems)) => {
            for p in problems {
                r.violation("C06", "repo_content_differs", p);
            }
        }
        Guarded::Ok(Err(err)) => {
            r.violation("C06", "replay_fails", format!("repository: {err}"));
        }
        other => {
            r.violation(
                "C06", "replay_panics",
                format!("second repository manager: {other:?}")
            );
        }
    }
}
