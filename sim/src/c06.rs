use crate::history::Runner;
pub fn check(_r: &mut Runner) { }
