//! Small helpers.

use std::any::Any;
use std::future::Future;
use std::path::Path;

pub fn panic_message(payload: &Box<dyn Any + Send>) -> String {
    if let Some(s) = payload.downcast_ref::<&'static str>() {
        (*s).to_string()
    }
    else if let Some(s) = payload.downcast_ref::<String>() {
        s.clone()
    }
    else {
        "non-string panic payload".to_string()
    }
}

pub fn sha256_hex(data: &[u8]) -> String {
    let digest = openssl::sha::sha256(data);
    hex::encode(digest)
}

/// Drives a future that never actually waits to completion.
///
/// With the `inline_pool` hook the manager's async methods complete on the
/// first poll.
pub fn block_on<F: Future>(fut: F) -> F::Output {
    use futures_util::FutureExt;
    match fut.now_or_never() {
        Some(out) => out,
        None => {
            eprintln!("HARNESS-ERROR: manager future did not complete inline");
            std::process::exit(2);
        }
    }
}

pub fn copy_dir(src: &Path, dst: &Path) -> std::io::Result<()> {
    std::fs::create_dir_all(dst)?;
    let mut entries: Vec<_> = std::fs::read_dir(src)?
        .collect::<Result<Vec<_>, _>>()?;
    entries.sort_by_key(|e| e.file_name());
    for entry in entries {
        let ty = entry.file_type()?;
        let to = dst.join(entry.file_name());
        if ty.is_dir() {
            copy_dir(&entry.path(), &to)?;
        }
        else if ty.is_file() {
            std::fs::copy(entry.path(), &to)?;
        }
    }
    Ok(())
}

/// Lists all files under a directory (relative paths, sorted).
pub fn list_files(root: &Path) -> Vec<String> {
    fn walk(root: &Path, dir: &Path, out: &mut Vec<String>) {
        let Ok(rd) = std::fs::read_dir(dir) else { return };
        for entry in rd.flatten() {
            let path = entry.path();
            if path.is_dir() {
                walk(root, &path, out);
            }
            else if let Ok(rel) = path.strip_prefix(root) {
                out.push(rel.to_string_lossy().into_owned());
            }
        }
    }
    let mut out = Vec::new();
    walk(root, root, &mut out);
    out.sort();
    out
}

pub fn env_u64(name: &str, dflt: u64) -> u64 {
    std::env::var(name).ok().and_then(|s| s.parse().ok()).unwrap_or(dflt)
}
