//! C16 (API part): request bodies as a client could send them - decoded with
//! serde into the API request types and, if they decode, handed to the
//! corresponding manager call. Nothing may panic or exit; a refused request
//! leaves the configuration untouched.

use std::collections::BTreeSet;
use std::str::FromStr;
use rpki::ca::idexchange::ChildHandle;
use krill::api;
use crate::history::{Runner, Violation};
use crate::model::Res;
use crate::ops::Op;
use crate::rng::Rng;
use crate::sim::handle;
use crate::util::block_on;
use crate::world::{guarded, Guarded, ADMIN};

const CA: &str = "victim";

fn mutate(rng: &mut Rng, text: &str) -> String {
    let mut bytes = text.as_bytes().to_vec();
    for _ in 0..(1 + rng.below(3)) {
        if bytes.is_empty() { break }
        let pos = rng.usize(bytes.len());
        match rng.below(6) {
            0 => bytes[pos] = *rng.pick(&[b'"', b'{', b'}', b'[', b']', b',', b':', b'-', b'9', b'/']),
            1 => { bytes.remove(pos); }
            2 => bytes.insert(pos, *rng.pick(&[b'9', b'0', b'-', b'/', b'"', b'e', b'.'])),
            3 => {
                // Blow up a number.
                let digits = b"99999999999999999999999".to_vec();
                bytes.splice(pos..pos, digits);
            }
            4 => bytes.truncate(pos),
            _ => bytes[pos] = rng.below(128) as u8,
        }
    }
    String::from_utf8_lossy(&bytes).to_string()
}

fn config_digest(r: &Runner) -> String {
    crate::hooks::with_faults_suspended(|| {
        let rt = r.world.inst(0).rt();
        match rt.ca_manager().get_ca(&handle(CA)) {
            Ok(ca) => {
                let mut roas: Vec<String> = ca.configured_roas().iter()
                    .map(|c| c.roa_configuration.to_string()).collect();
                roas.sort();
                let mut aspas: Vec<String> = ca.aspas_definitions_show()
                    .as_slice().iter().map(|d| d.to_string()).collect();
                aspas.sort();
                let mut bgpsec: Vec<String> = ca.bgpsec_definitions_show()
                    .as_slice().iter()
                    .map(|d| format!("{}:{}", d.asn, d.key_identifier))
                    .collect();
                bgpsec.sort();
                let info = ca.as_ca_info();
                let mut children: Vec<String> = info.children.iter().map(|c| {
                    ca.get_child(c).map(|d| format!(
                        "{c}:{}:{:?}", d.resources, d.state
                    )).unwrap_or_default()
                }).collect();
                children.sort();
                format!("{roas:?}{aspas:?}{bgpsec:?}{children:?}")
            }
            Err(_) => "none".into(),
        }
    })
}

pub fn api_bodies(
    r: &mut Runner, rng: &mut Rng, violations: &mut Vec<Violation>,
    cases: &mut BTreeSet<String>, step: usize,
) {
    // A CA with resources, a child and some configuration.
    let res = Res { v4: 0x00ff, v6: 0x0f, asn: 0x0f };
    r.exec(&Op::CreateCa {
        inst: 0, name: CA.into(), parent_inst: 0, parent: "testbed".into(),
        res,
    });
    r.exec_pump();
    r.exec(&Op::CreateCa {
        inst: 0, name: "grandkid".into(), parent_inst: 0, parent: CA.into(),
        res: Res { v4: 0x0003, v6: 0x01, asn: 0x01 },
    });
    r.exec_pump();
    if r.dead.is_some() {
        return
    }
    let mut fail = |rule: &str, detail: String| {
        violations.push(Violation {
            prop: "C16".into(), rule: rule.into(), detail, step,
        });
    };

    let roa_bodies = [
        r#"{"added":[{"asn":64500,"prefix":"10.0.1.0/24","max_length":24,"comment":"x"}],"removed":[]}"#,
        r#"{"added":[{"asn":64500,"prefix":"10.0.1.0/24","max_length":255}],"removed":[]}"#,
        r#"{"added":[{"asn":64500,"prefix":"10.0.1.0/24","max_length":0}],"removed":[]}"#,
        r#"{"added":[{"asn":4294967296,"prefix":"10.0.1.0/24"}],"removed":[]}"#,
        r#"{"added":[{"asn":-1,"prefix":"10.0.1.0/24"}],"removed":[]}"#,
        r#"{"added":[{"asn":64500,"prefix":"10.0.1.0/33"}],"removed":[]}"#,
        r#"{"added":[{"asn":64500,"prefix":"10.0.1.1/24"}],"removed":[]}"#,
        r#"{"added":[{"asn":64500,"prefix":"::/129"}],"removed":[]}"#,
        r#"{"added":[{"asn":64500,"prefix":"2001:db8::/32","max_length":200}],"removed":[]}"#,
        r#"{"added":[{"asn":64500,"prefix":"/"}],"removed":[]}"#,
        r#"{"added":[{"asn":64500,"prefix":""}],"removed":[]}"#,
        r#"{"added":[{"asn":"AS64500","prefix":"10.0.1.0/24"}],"removed":[{"asn":64500,"prefix":"10.0.1.0/24","max_length":24}]}"#,
        r#"{"added":[],"removed":[{"asn":64500,"prefix":"10.0.9.0/24"}]}"#,
        r#"{"added":[{"asn":64500,"prefix":"10.0.1.0/24","comment":"\u0000\ud83d"}],"removed":[]}"#,
        r#"{"added":[{"asn":64500,"prefix":"0.0.0.0/0","max_length":32}],"removed":[]}"#,
    ];
    let aspa_bodies = [
        r#"{"add_or_replace":[{"customer":"AS65000","providers":["AS65001","AS65002"]}],"remove":[]}"#,
        r#"{"add_or_replace":[{"customer":"AS65000","providers":[]}],"remove":[]}"#,
        r#"{"add_or_replace":[{"customer":"AS65000","providers":["AS65000"]}],"remove":[]}"#,
        r#"{"add_or_replace":[{"customer":"AS4294967296","providers":["AS1"]}],"remove":[]}"#,
        r#"{"add_or_replace":[{"customer":"AS-1","providers":["AS1"]}],"remove":[]}"#,
        r#"{"add_or_replace":[{"customer":65000,"providers":[65001]}],"remove":["AS65000"]}"#,
        r#"{"add_or_replace":[{"customer":"AS65000","providers":["AS1","AS1","AS1"]}],"remove":["AS65000","AS65000"]}"#,
        r#"{"add_or_replace":[],"remove":["AS99999"]}"#,
    ];
    let child_bodies = [
        r#"{"resources":{"asn":"AS65000-AS65001","ipv4":"10.0.0.0/16","ipv6":""}}"#,
        r#"{"resources":{"asn":"AS2-AS1","ipv4":"","ipv6":""}}"#,
        r#"{"resources":{"asn":"","ipv4":"10.0.0.0-9.0.0.0","ipv6":""}}"#,
        r#"{"resources":{"asn":"","ipv4":"10.0.0.0/8-10.0.0.0/4","ipv6":""}}"#,
        r#"{"resources":{"asn":"AS0-AS4294967295","ipv4":"0.0.0.0/0","ipv6":"::/0"}}"#,
        r#"{"resources":{"asn":"","ipv4":"","ipv6":""}}"#,
        r#"{"resources":{"asn":"inherit","ipv4":"inherit","ipv6":"inherit"}}"#,
        r#"{"resources":{"asn":"AS1,,AS2","ipv4":"10.0.0.0/16,","ipv6":"::ffff:1.2.3.4/200"}}"#,
        r#"{"suspend":true}"#,
        r#"{"suspend":false,"resources":{"asn":"","ipv4":"10.0.0.0/16","ipv6":""}}"#,
        r#"{"resource_class_name_mapping":{"name_in_parent":"0","name_for_child":"\u0000"}}"#,
        r#"{"resource_class_name_mapping":{"name_in_parent":"does-not-exist","name_for_child":"x"}}"#,
    ];
    let bgpsec_bodies = [
        r#"{"add":[{"asn":65000,"csr":"AAAA"}],"remove":[]}"#,
        r#"{"add":[{"asn":65000,"csr":""}],"remove":[]}"#,
        r#"{"add":[],"remove":[{"asn":65000,"key":"0000000000000000000000000000000000000000"}]}"#,
        r#"{"add":[],"remove":[{"asn":65000,"key":"zz"}]}"#,
    ];

    // Valid bodies in the exact wire format, as a base for mutations.
    let mut generated: Vec<(&str, String)> = Vec::new();
    {
        let aspa = api::aspa::AspaDefinitionUpdates {
            add_or_replace: vec![api::aspa::AspaDefinition {
                customer: 65000u32.into(),
                providers: vec![64601u32.into(), 64602u32.into()],
            }],
            remove: vec![65001u32.into()],
        };
        if let Ok(text) = serde_json::to_string(&aspa) {
            generated.push(("aspa", text));
        }
        if let Some(bytes) = r.csrs.first() {
            if let Ok(csr) = rpki::ca::csr::BgpsecCsr::decode(bytes.as_ref()) {
                let upd = api::bgpsec::BgpSecDefinitionUpdates {
                    add: vec![api::bgpsec::BgpSecDefinition {
                        asn: rpki::resources::Asn::from_u32(65000), csr,
                    }],
                    remove: vec![],
                };
                if let Ok(text) = serde_json::to_string(&upd) {
                    generated.push(("bgpsec", text));
                }
            }
        }
        let roa = api::roa::RoaConfigurationUpdates {
            added: vec![
                api::roa::RoaConfiguration::from_str("10.0.2.0/24-24 => 64500 # c")
                    .unwrap()
            ],
            removed: vec![],
        };
        if let Ok(text) = serde_json::to_string(&roa) {
            generated.push(("roa", text));
        }
    }

    let mut run_case = |r: &mut Runner, kind: &str, text: String| {
        let before = config_digest(r);
        let inst = r.world.inst(0);
        inst.enter();
        let mgr = inst.mgr().clone();
        let kind2 = kind.to_string();
        let text2 = text.clone();
        let res = guarded(move || -> Option<Result<(), String>> {
            match kind2.as_str() {
                "roa" => {
                    let v: api::roa::RoaConfigurationUpdates
                        = serde_json::from_str(&text2).ok()?;
                    Some(block_on(mgr.ca_routes_update(handle(CA), v, ADMIN))
                        .map_err(|e| format!("{e:?}")))
                }
                "aspa" => {
                    let v: api::aspa::AspaDefinitionUpdates
                        = serde_json::from_str(&text2).ok()?;
                    Some(block_on(mgr.ca_aspas_definitions_update(
                        handle(CA), v, ADMIN
                    )).map_err(|e| format!("{e:?}")))
                }
                "child" => {
                    let v: api::admin::UpdateChildRequest
                        = serde_json::from_str(&text2).ok()?;
                    Some(block_on(mgr.ca_child_update(
                        handle(CA), ChildHandle::from_str("grandkid").unwrap(),
                        v, ADMIN
                    )).map_err(|e| format!("{e:?}")))
                }
                _ => {
                    let v: api::bgpsec::BgpSecDefinitionUpdates
                        = serde_json::from_str(&text2).ok()?;
                    Some(block_on(mgr.ca_bgpsec_definitions_update(
                        handle(CA), v, ADMIN
                    )).map_err(|e| format!("{e:?}")))
                }
            }
        });
        match res {
            Guarded::Ok(None) => {
                cases.insert(format!("c16.api.{kind}.undecodable"));
            }
            Guarded::Ok(Some(Ok(()))) => {
                cases.insert(format!("c16.api.{kind}.accepted"));
            }
            Guarded::Ok(Some(Err(_))) => {
                cases.insert(format!("c16.api.{kind}.refused"));
                if config_digest(r) != before {
                    fail(
                        "refused_body_changed_state",
                        format!("{kind} body {text} was refused but the \
                                 configuration changed")
                    );
                }
            }
            Guarded::Panic(msg) => fail(
                "panic", format!("{kind} request body {text}: {msg}")
            ),
            Guarded::Fatal(msg) => fail(
                "daemon_exit", format!("{kind} request body {text}: {msg}")
            ),
            other => fail(
                "panic", format!("{kind} request body {text}: {other:?}")
            ),
        }
    };

    for (kind, bodies) in [
        ("roa", &roa_bodies[..]), ("aspa", &aspa_bodies[..]),
        ("child", &child_bodies[..]), ("bgpsec", &bgpsec_bodies[..]),
    ] {
        for body in bodies {
            run_case(r, kind, body.to_string());
            for _ in 0..3 {
                let m = mutate(rng, body);
                run_case(r, kind, m);
            }
        }
    }
    for (kind, body) in &generated {
        run_case(r, kind, body.clone());
        for _ in 0..12 {
            let m = mutate(rng, body);
            run_case(r, kind, m);
        }
    }
    // Numeric path segments of the history routes
    // (`/cas/{ca}/history/commands/{rows}/{offset}/{after}/{before}` and
    // `/cas/{ca}/history/details/{version}`): the handlers parse them as
    // integers and pass them unchecked to these manager calls. Values
    // whose allocation would merely fail (and abort the harness process
    // too) are left out; the extremes below overflow instead.
    {
        let inst = r.world.inst(0);
        inst.enter();
        let mgr = inst.mgr().clone();
        let extremes: [usize; 5] = [
            0, 1, usize::MAX, usize::MAX / 2, (isize::MAX as usize) / 8,
        ];
        for rows in extremes {
            // Offsets inside, at and (far) beyond the end of the history.
            for offset in [
                0usize, 1, 50, 1000, 1 << 32, usize::MAX / 2, usize::MAX
            ] {
                for (after, before) in [
                    (None, None), (Some(i64::MAX), Some(i64::MIN)),
                    (Some(i64::MIN), Some(i64::MAX)),
                ] {
                    let mgr = mgr.clone();
                    let res = guarded(move || {
                        block_on(mgr.ca_history(
                            handle(CA),
                            api::history::CommandHistoryCriteria {
                                before, after, offset,
                                rows_limit: Some(rows),
                                .. Default::default()
                            }
                        )).map(|h| h.commands.len())
                            .map_err(|e| format!("{e:?}"))
                    });
                    cases.insert("c16.api.history.path_segments".into());
                    match res {
                        Guarded::Ok(_) => { }
                        Guarded::Panic(msg) => fail(
                            "panic", format!(
                                "GET history/commands/{rows}/{offset}/\
                                 {after:?}/{before:?}: {msg}"
                            )
                        ),
                        other => fail(
                            "panic", format!(
                                "GET history/commands/{rows}/{offset}: \
                                 {other:?}"
                            )
                        ),
                    }
                }
            }
        }
        // `/pubd/stale/{seconds}`.
        for seconds in [0i64, -1, i64::MIN, i64::MAX] {
            let mgr = mgr.clone();
            let res = guarded(move || {
                block_on(mgr.repo_stats()).map(|stats| {
                    stats.stale_publishers(seconds).count()
                }).map_err(|e| format!("{e:?}"))
            });
            if let Guarded::Panic(msg) = res {
                fail("panic", format!("GET pubd/stale/{seconds}: {msg}"));
            }
        }
        for version in [0u64, 1, u64::MAX, u64::MAX / 2, 1 << 63] {
            let mgr = mgr.clone();
            let res = guarded(move || {
                block_on(mgr.ca_command_details(handle(CA), version))
                    .map(|d| d.is_some()).map_err(|e| format!("{e:?}"))
            });
            if let Guarded::Panic(msg) = res {
                fail(
                    "panic",
                    format!("GET history/details/{version}: {msg}")
                );
            }
        }
    }
    // Well-formed but unusual values, sent to the CA that holds every
    // resource (the testbed CA): whatever the daemon accepts and stores
    // it must be able to read again - otherwise one request makes the CA
    // unloadable for good.
    {
        let unusual = [
            // IPv4-mapped and other special IPv6 space.
            r#"{"added":[{"asn":64500,"prefix":"::ffff:102:300/120"}],"removed":[]}"#,
            r#"{"added":[{"asn":64501,"prefix":"::ffff:0:0/96","max_length":128}],"removed":[]}"#,
            r#"{"added":[{"asn":64502,"prefix":"64:ff9b::/96"}],"removed":[]}"#,
            r#"{"added":[{"asn":64503,"prefix":"::/0","max_length":0}],"removed":[]}"#,
            r#"{"added":[{"asn":64504,"prefix":"::1/128"}],"removed":[]}"#,
            r#"{"added":[{"asn":4294967295,"prefix":"255.255.255.255/32"}],"removed":[]}"#,
            r#"{"added":[{"asn":0,"prefix":"0.0.0.0/0","max_length":0}],"removed":[]}"#,
            r#"{"added":[{"asn":64505,"prefix":"fe80::/10","comment":"=> # \" \n"}],"removed":[]}"#,
        ];
        let mut accepted = 0;
        for body in unusual {
            let inst = r.world.inst(0);
            inst.enter();
            let mgr = inst.mgr().clone();
            let text = body.to_string();
            let res = guarded(move || -> Option<Result<(), String>> {
                let v: api::roa::RoaConfigurationUpdates
                    = serde_json::from_str(&text).ok()?;
                Some(block_on(mgr.ca_routes_update(
                    handle("testbed"), v, ADMIN
                )).map_err(|e| format!("{e:?}")))
            });
            match res {
                Guarded::Ok(Some(Ok(()))) => { accepted += 1; }
                Guarded::Ok(_) => { }
                Guarded::Panic(msg) => fail(
                    "panic", format!("ROA delta {body} for testbed: {msg}")
                ),
                other => fail(
                    "panic", format!("ROA delta {body} for testbed: {other:?}")
                ),
            }
        }
        if accepted > 0 {
            cases.insert("c16.api.roa.unusual_accepted".into());
        }
        // Read everything back the way a restarted daemon does.
        let before = r.violations.len();
        crate::c06::check(r);
        let found: Vec<Violation> = r.violations.drain(before..).collect();
        for v in found {
            fail(
                "accepted_value_does_not_load",
                format!(
                    "after accepting unusual ROA prefixes for the CA that \
                     holds all resources: {} ({})", v.detail, v.rule
                )
            );
        }
    }
    // Background work must survive whatever was accepted.
    r.exec_pump();
    if let Some(dead) = &r.dead {
        violations.push(Violation {
            prop: "C16".into(), rule: "dies_after_accepted_body".into(),
            detail: format!("background work after the bodies: {dead}"),
            step,
        });
    }
}
