#!/bin/sh
# Usage: tools/seeded_round3.sh <ID>...
# Takes the deliverables of a round-3 sub-agent from its scratch worktree
# /tmp/seed3/<ID>/repo/SEEDED into /verif/seeded/<ID>-3 and evaluates the
# change in isolation (tools/seeded_eval_iso.sh).
for ID in "$@"; do
    mkdir -p /verif/seeded/$ID-3
    cp /tmp/seed3/$ID/repo/SEEDED/* /verif/seeded/$ID-3/ 2>/dev/null
    /verif/tools/seeded_eval_iso.sh $ID-3 > /tmp/seed3/eval_$ID.log 2>&1
    echo "$ID done: $(head -3 /verif/seeded/$ID-3/result.txt | tr '\n' ' ' | cut -c1-200)" >> /tmp/seed3/eval_progress.log
done
