#!/bin/sh
# Usage: tools/run_quick_seeds.sh <seed>...   quick tier of every claimed check for each seed.
cd "$(dirname "$0")/.." || exit 2
V="$(pwd)"; mkdir -p "$V/work"
LOG=$V/work/quick-seeds.log
for S in "$@"; do
for P in C01 C02 C03 C04 C05 C06 C07 C08 C09 C10 C11 C12 C14 C15 C16 C18 C19; do
    START=$(date +%s)
    VERIF_SEED=$S ./check "$P" quick > "$V/work/quick-s$S-$P.out" 2>&1
    CODE=$?
    END=$(date +%s)
    echo "seed $S $P exit $CODE $((END-START))s: $(grep -E "^C[0-9]+:" $V/work/quick-s$S-$P.out | tail -1)" >> "$LOG"
    grep -E "^VIOLATION|HARNESS" "$V/work/quick-s$S-$P.out" >> "$LOG"
done
done
echo DONE >> "$LOG"
