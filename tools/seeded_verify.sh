#!/bin/sh
# Usage: tools/seeded_verify.sh <worktree> <seeded-name> <demo-file-in-SEEDED> <tests/target.rs> [suite]
# Confirms in the sub-agent's scratch worktree: patch applies to the clean
# tree; the demonstration passes without and fails with the change; with
# "suite": the repository's test suite (unedited) still passes with the change.
# Runs in a private network namespace (the integration tests bind a fixed port).
WT="$1"; NAME="$2"; DEMO="$3"; TARGET="$4"; SUITE="${5:-}"
DST="/verif/seeded/$NAME"
mkdir -p "$DST"
cp "$WT"/SEEDED/* "$DST"/ 2>/dev/null
rm -f "$DST/suite.log"
cd "$WT" || exit 2
git checkout -q -- src tests 2>/dev/null
git status --short | grep -v SEEDED
TEST=$(basename "$TARGET" .rs)
cp "SEEDED/$DEMO" "$TARGET"
run() { unshare -n sh -c "ip link set lo up; CARGO_NET_OFFLINE=true cargo test --offline --test $TEST 2>&1" | grep -E "^test result|^test .* (ok|FAILED)|error(\[|:)" | head -8; }
{
echo "== demonstration on the unchanged tree (must pass)"
run
git apply SEEDED/patch.diff || echo "PATCH DOES NOT APPLY"
echo "== demonstration with the change (must fail)"
run
rm -f "$TARGET"
if [ -n "$SUITE" ]; then
  echo "== test suite with the change (only analyse_nlnet_labs_snapshot may fail)"
  unshare -n sh -c "ip link set lo up; CARGO_NET_OFFLINE=true cargo test --workspace --no-fail-fast --offline 2>&1" | grep -E "^test result|FAILED|failed" | sort | uniq -c | head -30
  echo "== cargo check --features verif-hooks"
  CARGO_NET_OFFLINE=true cargo check --offline --features verif-hooks 2>&1 | tail -1
fi
} > "$DST/verify.txt" 2>&1
git checkout -q -- src
cat "$DST/verify.txt"
