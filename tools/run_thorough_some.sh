#!/bin/sh
# Usage: tools/run_thorough_some.sh <PROP>...   thorough tier of the given checks (VERIF_SEED honoured).
cd "$(dirname "$0")/.." || exit 2
V="$(pwd)"; mkdir -p "$V/work"
LOG=$V/work/thorough-some.log
for P in "$@"; do
    START=$(date +%s)
    ./check "$P" thorough > "$V/work/thorough-some-$P.out" 2>&1
    CODE=$?
    END=$(date +%s)
    echo "$P exit $CODE $((END-START))s: $(grep -E "^C[0-9]+:" $V/work/thorough-some-$P.out | tail -1)" >> "$LOG"
    grep -E "^VIOLATION|HARNESS" "$V/work/thorough-some-$P.out" >> "$LOG"
done
echo DONE >> "$LOG"
