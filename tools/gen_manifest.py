#!/usr/bin/env python3
"""Generates /verif/MANIFEST.json from the table below."""
import json, subprocess

HOOK_COMMITS = subprocess.run(
    ["git", "-C", "/repo", "log", "--format=%H %s"],
    capture_output=True, text=True).stdout.splitlines()
hook_commits = [l.split()[0] for l in HOOK_COMMITS if " verif-hooks:" in l]
hook_commits.reverse()

TRUSTED = ("Trusted base: rpki-rs decoding/validation, the harness's relying-party walk and "
           "reference model, the committed RSA key pool (key generation is stubbed), the "
           "link-level clock/entropy seams. Sampling: a clean batch is evidence over the "
           "explored seeds, not proof.")

CLAIMED = {
    "C01": dict(
        category="exploration",
        technique="deterministic simulation: seeded API histories + real scheduler, relying-party walk and reference model as oracles",
        text="Seeded search over operation histories and configurations on the real CA/publication code under a virtual clock; after every quiescence a strict rpki-rs top-down validation must accept the whole tree and the validated payloads must equal the reference model. Exploration is the right level: the quantifier is over unbounded histories, which can only be sampled.",
        design_ref="DESIGN.md §5 C01",
    ),
}

NOT_APPLICABLE = {
    "C13": "Route x role x credential table of the HTTP dispatch layer: no schedule, clock, fault or interleaving in it, and the code is only reachable through a real hyper connection, outside anything the simulator controls (DESIGN.md §6).",
    "C20": "Predicate over credential strings and socket peer credentials: a pure function of input and configuration, only reachable through real sockets; not a simulation target (DESIGN.md §6).",
    "C17": "BgpAnalyser::analyse is a pure function of (ROAs, announcements, resources); nothing to schedule or fault - a differential/property test is the right tool, not a simulator (DESIGN.md §6).",
}
CLAIMED["C05"] = dict(
    category="exploration",
    technique="deterministic simulation: seeded histories with deliberately invalid requests against reached CA states, reference-model verdicts, before/after state digests",
    text="Seeded search over request contents x reached CA states on the real code; the model's accept/refuse verdict (iff of the statement) is compared with Krill's for every request, refusals are checked to leave configuration, stored object set and repository byte-identical with exactly one error record in the audit log. Closest to model-based testing of all properties; claimed at exploration level only.",
    design_ref="DESIGN.md §5 C05",
)
CLAIMED["C02"] = dict(
    category="exploration",
    technique="deterministic simulation: seeded entitlement histories, single-stepped real scheduler, certificates decoded from each CA's stored object set after every step, convergence and idempotence rounds",
    text="Seeded search over entitlement histories in multi-level trees on the real code. The never-over-claims and issued-exactly clauses are instant invariants evaluated after every API operation and every single background task on the decoded object set each CA is about to publish; convergence and idempotence are bounded-liveness checks at the end of each run. Issuance with a narrowing request limit is exercised by the harness as a remote child (exactly entitlement ∩ limit). Histories are unbounded, so exploration is the honest level.",
    design_ref="DESIGN.md §5 C02",
)
CLAIMED["C03"] = dict(
    category="exploration",
    technique="deterministic simulation: seeded life-ending histories, relying-party walk, ledger of every (issuer key, serial) ever published checked against decoded CRLs",
    text="Seeded search over histories biased towards removal, replacement and revocation; a ledger of every certificate and signed object ever validated is checked at every quiescence against the CRL of its issuing key decoded from the repository.",
    design_ref="DESIGN.md §5 C03",
)
CLAIMED["C04"] = dict(
    category="exploration",
    technique="deterministic simulation: seeded interleavings of key-roll steps with other operations, single-stepped scheduler, invariants on stored and published object sets, bounded liveness",
    text="Seeded search over orderings of the four roll steps with configuration, entitlement and child operations and syncs; panics and daemon exits are caught unwinds; the one-signing-key invariants are evaluated after every operation and task on the stored object sets and at quiescence on the published tree; completion of every roll within 8 rounds is checked once the last signing session has taken place. The trust anchor signer goes off-line and comes back as generated operations, so that rolls directly under the trust anchor wait for delayed signer responses while other operations continue.",
    design_ref="DESIGN.md §5 C04",
)
CLAIMED["C14"] = dict(
    category="exploration",
    technique="deterministic simulation under a virtual clock: swarm-drawn timing configurations, clock jumps of minutes to weeks, before/after decoding of object sets around every real maintenance task",
    text="Seeded search over timing configurations x histories x clock advances; the real RepublishIfNeeded / RenewObjectsIfNeeded tasks fire from the real scheduler under the virtual clock and every stored set is decoded before and after each run (due => re-issued with number+1, not due => byte-identical, payload names unchanged, numbers monotone), plus a relying-party walk at quiescence for windows containing the present. Part c18: a forced or due re-publication run overlapping other requests on other threads must leave a serialisable state.",
    design_ref="DESIGN.md §5 C14",
)
CLAIMED["C06"] = dict(
    category="exploration",
    technique="deterministic simulation: seeded histories with real snapshot tasks and restarts; three-way comparison live / snapshot+commands / init+all commands for every aggregate type, plus API views and the content log; command bursts with one injected failing storage write",
    text="Seeded search over command histories with snapshots and restarts at seed-chosen points on both storage back-ends; every aggregate type is rebuilt from the same stored bytes in two further ways and compared field by field with the live state (two wall-clock fields masked), replays run under catch_unwind. A second part issues bursts of commands without reads in between, one of them with an injected failing write, and makes the same comparison (what a failed write leaves in the aggregate cache must equal what is stored). A third of the snapshot updates run with their k-th storage mutation failing (I/O error), and the three-way comparison runs right afterwards.",
    design_ref="DESIGN.md §5 C06",
)
CLAIMED["C08"] = dict(
    category="fault_enumeration",
    technique="deterministic simulation with fault injection: per (operation, reached state) pair every storage and file-system mutation is cut by a crash, by an I/O error, by a full-disk window and by a crash followed by a second crash during start-up or the background work after it; restart from the surviving directory; fault-free twin as oracle",
    text="Seeded choice of (operation, state) pairs; within a pair the cut points (mutations of the key-value store and the file system, recorded by a counting run) are enumerated completely up to 24 and sampled beyond, each as process crash (unwind, restart from disk), as a failing write, a third of the creating ones as a full-disk window, and half of them as a crash followed by a second crash before the j-th mutation of the start-up path or of the first background round. Loading of every entity, audit log / state / object set agreement and validity of the published tree are checked right after the cut, equality with the fault-free twin after the recovery procedure. One pair in six cuts the removal of a publisher (two entities changed by one request). Parts netcrash/netcrashfaults: two-instance histories over the simulated network in which, several times per run, one instance's process dies before the k-th mutation of a background task or while it serves a request of the other instance, and is started again; the C01-C03 oracles must hold at every later quiescence.",
    design_ref="DESIGN.md §5 C08",
)
CLAIMED["C09"] = dict(
    category="fault_enumeration",
    technique="deterministic simulation with fault injection: crash before every mutation of an operation and its background tasks, restart, run all due tasks, direct follow-up oracle; the same cut points as a failing write with the instance staying up and as a double crash; publication runs with a failing task-store write; plus the real TaskQueue against a reference model under seeded operation/restart sequences",
    text="Crash points are enumerated per (operation, state) pair like for C08 (including every instant at which a task is pending or exactly one is running); after restart the queue is inspected (nothing left running, recurring tasks queued) and the effects of the follow-ups are checked directly (object sets at the repository, served files equal content, no unsent requests, no key in use at a parent that its child dropped). The same cut points are run as a single failing write with the instance staying up (judged after the retry interval) and, for half of them, with a second crash after the restart. The queue primitive itself is explored against a reference model, and publication runs with a failing write of the task store check that an RRDP update queued for an acknowledged publication still takes place. Part netcrash: process crashes of either instance in the middle of background tasks in two-instance histories (quiescence must be reached again). Part c09hist: the follow-up oracle (object sets at the repository, served files, no key left in use at a parent) at every quiescence of fault-free removal-heavy histories, half of them with a child that loses several classes under one parent at once.",
    design_ref="DESIGN.md §5 C09",
)
CLAIMED["C11"] = dict(
    category="exploration",
    technique="deterministic simulation: simulated RRDP/rsync client population that remembers every serial, evaluated after every operation and every single background task; file-system cut points (crash, I/O error, torn write) in the repository writer",
    text="Seeded search over publication histories, retention configurations, session resets and restarts; the served files are parsed with the rpki RRDP parser after every step and every remembered serial is replayed through the offered delta chain. The cut-point part enumerates the file-system mutations of an update (crash / error / torn write) and checks the served files right after the cut, after background recovery and after a later publication; in half of the cases a publication arrives before the failed write is retried, so that the files on disk are more than one serial behind when the next write happens, and half of the cut points are also run with a second crash after the restart.",
    design_ref="DESIGN.md §5 C11",
)
CLAIMED["C07"] = dict(
    category="exploration",
    technique="deterministic simulation of real threads: cooperative scheduler (seeded random and PCT policies, recorded decision list) releasing API and reader threads one at a time at Krill's storage/lock switch points; serial witness as oracle; sequential command bursts without intermediate reads and one injected failing storage write, audit-log and rebuild oracles",
    text="Seeded search over interleavings of concurrent commands and reads on the same and different CAs on both back-ends; versions, stored command records and reader observations are checked directly, and linearizability is decided by re-building the same prefix and issuing the same calls one at a time in their commit order (further linear extensions are tried before a mismatch is reported). A second part covers failing writes: bursts of 2-4 commands against one CA without reads in between, one of them with its k-th storage mutation failing; stored command numbers must stay consecutive, the live version must equal their number, refused and acknowledged calls must have their records and the live state must equal the replayed one. Two further threads page through the command history (the history API, with and without the history cache) while commands are recorded; every page must list consecutive versions once each.",
    design_ref="DESIGN.md §5 C07",
)
CLAIMED["C18"] = dict(
    category="exploration",
    technique="deterministic simulation of real threads: cooperative scheduler over API threads plus a scheduler stand-in thread running the real background tasks; structural deadlock detection, step budget, serial witness and relying-party walk",
    text="Seeded search over interleavings of API calls with the real task scheduler (parent and child on one instance, publication server included); deadlock is detected structurally (every unfinished thread blocked on a lock, none can progress), completion is bounded by a step budget, panics and daemon exits are caught unwinds, and the state after quiescence is compared with a serial execution whenever the per-call outcomes coincide. In a third of the scenarios one request deletes a CA while the scheduler thread works on the tasks the deletion queues for that CA (aggregate and history cache locks are cooperative wait points, so a lock-order inversion shows as a structural deadlock).",
    design_ref="DESIGN.md §5 C18",
)
CLAIMED["C10"] = dict(
    category="exploration",
    technique="deterministic simulation: seeded delta sequences from several raw publishers against the real publication server, reference model per publisher, interleaved with RRDP updates by the real scheduler, session resets, restarts and publisher removal; a second part with injected failing writes while a delta is processed",
    text="Model-based seeded search over delta sequences (valid, invalid at one drawn position, look-alike and nested handles, case variants) with full comparison of every publisher's list reply and details after every request, plus the served RRDP files checked by the simulated client population. In the failing-write part a fifth of the deltas meets an I/O error at a seeded mutation of the request: the publisher's content afterwards must be what it was or what the whole delta makes it, and a positive reply means applied.",
    design_ref="DESIGN.md §5 C10",
)
CLAIMED["C12"] = dict(
    category="fault_enumeration",
    technique="deterministic simulation of the transport between remote children/publishers (played by the harness with its own identity keys) and the real rfc6492 / rfc8181 entry points: substitution of signing keys and senders, identity replacement, single-bit corruption",
    text="The key x sender x recipient matrix, the identity-replacement cases and the publication isolation cases are enumerated completely in every run; bit corruption is sampled (320 positions per run, jittered by the seed). State digests before/after every refused request, replies validated under the server's identity certificate; issuance with a narrowing request limit, and the list request of a suspended child whose entitlement shrank (what the reply offers and the certificates it carries must lie within the entitlement as it is now). Half of the runs replace a child's identity in a request that also states its resources (every field must take effect).",
    design_ref="DESIGN.md §5 C12",
)
CLAIMED["C16"] = dict(
    category="exploration",
    technique="deterministic simulation with a hostile client: structured and seeded mutations of CMS messages (raw and validly re-signed), XML and API JSON bodies against the protocol entry points and manager calls under catch_unwind",
    text="Seeded search over malformed inputs at the entry points the simulator can reach (rfc6492, rfc8181, serde decoding of API request types followed by the manager call). The values of the numeric path segments of the history and stale-publisher routes are passed to the manager calls their handlers make (extreme values). The HTTP routing layer itself (path splitting, headers) is outside the simulator; that part of the quantifier is not covered (see DESIGN.md). Well-formed but unusual values (IPv4-mapped and other special IPv6 prefixes, extreme AS numbers) are sent to the CA that holds all resources and everything stored is read back the way a restarted daemon does; history offsets beyond the end.",
    design_ref="DESIGN.md §5 C16",
)
CLAIMED["C15"] = dict(
    category="fault_enumeration",
    technique="deterministic simulation with the harness as courier between trust-anchor proxy and signer: replayed, stale, re-ordered, cross-signed and modified requests and responses around every genuine exchange, several children with concurrent requests",
    text="The message-level fault kinds (replay, stale nonce, foreign signing key, clear text altered after signing, corrupted signed message, second request while one is open) are all delivered in every round of every run, around genuine exchanges carrying 1-2 child requests; state digests before/after every refused message; the open request fetched a second time (same nonce, signed anew) must not be processed again; a collected response is gone from the proxy and a further synchronisation delivers nothing. Signer re-initialisation is not covered (no such operation exists for the embedded signer). Part c15host: the real stand-alone signer (TrustAnchorSignerManager on its own storage) with the harness as courier; the signer is re-initialised with the same trust-anchor key (new identity) and the proxy told by 'signer update': afterwards only the newly associated signer is listened to, not the former one, not one with another trust-anchor key.",
    design_ref="DESIGN.md §5 C15",
)
CLAIMED["C19"] = dict(
    category="exploration",
    technique="deterministic simulation: seeded histories with failing exchanges (child removed, publisher removed, parent removed, CA deleted) and restarts; outcome of each synchronisation attempt derived from the captured log output and compared with status/issues views after every task; entitlements shown compared with what the parent CA returns for the child; a second part on two instances over the simulated network with lost requests and replies, duplicates, outages and a cut link",
    text="Seeded search over histories of successful and refused exchanges on the real code; the oracle for 'the most recent attempt failed' is the scheduler's own log line, an independent path from the status store; restart invariance is checked against a runtime loaded afresh from the same storage. After a synchronisation that asked for the entitlements and succeeded the classes (and the summary of all resources) in the status view must equal what the parent CA returns for that child, after a failed or request-only exchange they must be unchanged. The two-instance part makes exchanges fail in the transport as well.",
    design_ref="DESIGN.md §5 C19",
)
PENDING = {}

def main():
    props = [json.loads(l) for l in open("/verif/properties.jsonl")]
    checks = []
    for p in props:
        pid = p["id"]
        if pid in CLAIMED:
            c = CLAIMED[pid]
            checks.append({
                "property_id": pid,
                "quick_cmd": f"./check {pid} quick",
                "thorough_cmd": f"./check {pid} thorough",
                "evidence_file": f"/verif/evidence/{pid}.json",
                "replay_cmd_template": "./check replay {path}",
                "engine": "krill-sim",
                "level_claimed": {
                    "category": c["category"],
                    "text": c["text"],
                    "design_ref": c["design_ref"],
                },
                "level_note": c.get("note", TRUSTED),
                "technique": c["technique"],
            })
    na = []
    for p in props:
        pid = p["id"]
        if pid in CLAIMED:
            continue
        reason = NOT_APPLICABLE.get(pid) or PENDING.get(pid) or \
            "Not claimed: no check has been built for this property yet (see DESIGN.md build order)."
        na.append({"property_id": pid, "reason": reason})
    manifest = {
        "version": 1,
        "setup_cmd": "./check build && /verif/target/release/krill-sim determinism c01 424242 24 && /verif/target/release/krill-sim determinism c19net 424242 8 && /verif/target/release/krill-sim determinism c07fail 424242 8 && /verif/target/release/krill-sim determinism c10fail 424242 8 && /verif/target/release/krill-sim determinism netcrash 424242 8 && /verif/target/release/krill-sim determinism c18 424242 8",
        "hooks": {
            "guard": "cargo feature `verif-hooks` of the krill crate (off by default)",
            "enable": "the simulator crate /verif/sim depends on krill = { path = \"/repo\", features = [\"verif-hooks\"] }; every ./check invocation rebuilds it with `cargo build --release --offline`",
            "baseline_off_cmd": "cd /repo && cargo test --workspace --no-fail-fast --offline",
            "source_commits": hook_commits,
            "add_only": True,
        },
        "engines": [{
            "name": "krill-sim",
            "path": "/verif/sim",
            "serves_properties": sorted(CLAIMED.keys()),
            "kind_free_text": "deterministic simulator: whole Krill server core in one process under a virtual clock, seeded entropy, key pool, cooperative thread scheduler, kv/file-system fault hooks and a simulated transport; seeded search over histories, schedules and fault sequences; replay files",
        }],
        "checks": checks,
        "not_applicable": na,
        "notes": "All checks honour VERIF_SEED (default 1). Exit 0 held / 1 violation with a VIOLATION line and a minimised replay file under /verif/replays / 2 harness error. Known findings live in /verif/known-findings.json; evidence is rewritten on every run.",
    }
    json.dump(manifest, open("/verif/MANIFEST.json", "w"), indent=1)
    print("claimed", sorted(CLAIMED.keys()))

main()
