#!/bin/sh
# Runs the thorough tier of every claimed check, one after the other.
cd "$(dirname "$0")/.." || exit 2
V="$(pwd)"; mkdir -p "$V/work"
SUF="${VERIF_SEED:+-s$VERIF_SEED}"
LOG=$V/work/thorough$SUF.log
: > "$LOG"
for P in C01 C02 C03 C04 C05 C06 C07 C08 C09 C10 C11 C12 C14 C15 C16 C18 C19; do
    START=$(date +%s)
    ./check "$P" thorough > "$V/work/thorough$SUF-$P.out" 2>&1
    CODE=$?
    END=$(date +%s)
    echo "$P exit $CODE $((END-START))s: $(grep -E "^C[0-9]+:" $V/work/thorough$SUF-$P.out | tail -1)" >> "$LOG"
    grep -E "^VIOLATION" "$V/work/thorough$SUF-$P.out" >> "$LOG"
    mkdir -p $V/work/evidence-thorough$SUF
    cp "$V/evidence/$P.json" "$V/work/evidence-thorough$SUF/$P.json" 2>/dev/null
done
echo DONE >> "$LOG"
