#!/bin/sh
# Usage: tools/seeded_eval_iso.sh <seeded-dir-name> [checks...]
# Evaluates the seeded change /verif/seeded/<name>/patch.diff WITHOUT touching
# /repo: a scratch worktree of /repo's HEAD gets the patch, a scratch copy of
# /verif/sim is pointed at it and built into its own target directory, and
# the given checks (default: the property the name starts with) run with
# their evidence and replay files redirected to the scratch directory.
# Everything is removed afterwards. The outcome goes to
# /verif/seeded/<name>/result.txt.
NAME="$1"; shift
PROP=$(echo "$NAME" | cut -c1-3)
CHECKS="${*:-$PROP}"
DST="/verif/seeded/$NAME"
EV="/tmp/ev-$NAME"
export CARGO_NET_OFFLINE=true
rm -rf "$EV"; mkdir -p "$EV/out"
git -C /repo worktree add --detach "$EV/repo" HEAD >/dev/null 2>&1 || { echo "cannot create worktree"; exit 2; }
cleanup() { git -C /repo worktree remove --force "$EV/repo" >/dev/null 2>&1; rm -rf "$EV"; }
if ! git -C "$EV/repo" apply "$DST/patch.diff" 2>"$EV/apply.err"; then
    echo "patch does not apply"; cat "$EV/apply.err"; cleanup; exit 2
fi
git -C /verif archive HEAD sim | tar -x -C "$EV"
sed -i "s#path = \"/repo\"#path = \"$EV/repo\"#" "$EV/sim/Cargo.toml"
[ -d /verif/target/release ] && mkdir -p "$EV/target" && cp -a /verif/target/release "$EV/target/release"
if ! (cd "$EV/sim" && CARGO_TARGET_DIR="$EV/target" cargo build --release --offline >"$EV/build.log" 2>&1); then
    echo "build failed"; tail -20 "$EV/build.log"; cleanup; exit 2
fi
: > "$DST/result.txt"
for C in $CHECKS; do
    for SEED in 1 2; do
        OUT=$(cd /verif && VERIF_OUT="$EV/out" VERIF_SEED=$SEED "$EV/target/release/krill-sim" check "$C" quick 2>&1)
        CODE=$?
        echo "check $C seed $SEED exit $CODE" >> "$DST/result.txt"
        echo "$OUT" | grep -E "^violation|^VIOLATION|^C[0-9]+:|HARNESS" | cut -c1-400 | head -8 >> "$DST/result.txt"
        [ $CODE -ne 0 ] && break
    done
done
cleanup
cat "$DST/result.txt"
