#!/bin/sh
# Usage: tools/seeded_eval.sh <ID> [checks...]
# Copies the sub-agent's deliverables to /verif/seeded/<ID>/, applies the
# patch to /repo, runs the given checks (default: the property's own quick
# check), records the outcome and restores /repo.
ID="$1"; shift
CHECKS="${*:-$ID}"
SRC="/tmp/wt-$ID/SEEDED"
DST="/verif/seeded/$ID"
if [ -d "$SRC" ]; then
    mkdir -p "$DST"
    cp "$SRC"/* "$DST"/ 2>/dev/null
fi
cd /verif || exit 2
if ! git -C /repo diff --quiet; then echo "/repo is dirty"; exit 2; fi
if ! git -C /repo apply --3way "$DST/patch.diff" 2>/tmp/apply.err && ! git -C /repo apply "$DST/patch.diff" 2>>/tmp/apply.err; then
    echo "patch does not apply"; cat /tmp/apply.err; git -C /repo checkout -- . ; git -C /repo reset -q; exit 2
fi
git -C /repo reset -q
: > "$DST/result.txt"
for C in $CHECKS; do
    for SEED in 1 2; do
        OUT=$(VERIF_SEED=$SEED ./check "$C" quick 2>&1)
        CODE=$?
        echo "check $C seed $SEED exit $CODE" >> "$DST/result.txt"
        echo "$OUT" | grep -E "^violation|^VIOLATION|^C[0-9]+:" | cut -c1-400 | head -8 >> "$DST/result.txt"
        [ $CODE -ne 0 ] && break
    done
done
git -C /repo checkout -- .
cat "$DST/result.txt"
