#!/bin/sh
# Usage: tools/run_quick_some.sh "<seeds>" "<properties>"
cd "$(dirname "$0")/.." || exit 2
V="$(pwd)"; mkdir -p "$V/work"
LOG=$V/work/quick-some.log
for S in $1; do
for P in $2; do
    START=$(date +%s)
    VERIF_SEED=$S ./check "$P" quick > "$V/work/quick-s$S-$P.out" 2>&1
    CODE=$?
    END=$(date +%s)
    echo "seed $S $P exit $CODE $((END-START))s: $(grep -E "^C[0-9]+:" $V/work/quick-s$S-$P.out | tail -1)" >> "$LOG"
    grep -E "^VIOLATION|HARNESS|^violation" "$V/work/quick-s$S-$P.out" | cut -c1-400 >> "$LOG"
done
done
echo DONE >> "$LOG"
