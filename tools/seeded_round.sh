#!/bin/sh
# Usage: tools/seeded_round.sh <scratch-dir> <suffix> <ID>...
# Takes the deliverables of a sub-agent from <scratch-dir>/<ID>/repo/SEEDED
# into /verif/seeded/<ID>-<suffix> and evaluates the change in isolation
# (tools/seeded_eval_iso.sh). Progress goes to <scratch-dir>/eval_progress.log.
DIR="$1"; SUF="$2"; shift 2
for ID in "$@"; do
    mkdir -p /verif/seeded/$ID-$SUF
    cp "$DIR"/$ID/repo/SEEDED/* /verif/seeded/$ID-$SUF/ 2>/dev/null
    /verif/tools/seeded_eval_iso.sh $ID-$SUF > "$DIR"/eval_$ID.log 2>&1
    echo "$ID done: $(head -3 /verif/seeded/$ID-$SUF/result.txt | tr '\n' ' ' | cut -c1-300)" >> "$DIR"/eval_progress.log
done
