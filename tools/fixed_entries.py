#!/usr/bin/env python3
"""Rewrites the `fixed` entries of /verif/known-findings.json from the
`fix:` commits in /repo (hashes change when history is rewritten)."""
import json, subprocess

# subject fragment -> (property, rule, what failed)
FIXES = [
 ("do not issue child certificates without resources", "C01", "rp_rejects",
  "child certificate without any resource extension was issued and published when the child's entitlement no longer overlapped the issuing class at request time (history: shrink parent certificate between the child's list and issue requests); RP walk: 'both AS and IP resources extensions are missing'"),
 ("do not activate a new key that is certified for other resources", "C01", "rp_rejects",
  "key activation re-issued all ROAs/ASPAs/child certificates under a new key certified for fewer resources than the old key (history: keyroll init, parent shrinks entitlement, sync, keyroll activate); RP walk: 'certificate is overclaiming'"),
 ("answer a revocation request for a key without certificate with 1302", "C01", "no_manifest",
  "a child dropping its resource class left a certificate published at the parent because the revocation request for an already removed key failed and aborted the remaining requests; RP walk: publication point has no manifest"),
 ("refuse to add a trust anchor child without resources", "C04", "panic",
  "(also C05/C16) trust anchor child added with empty resources made the TA signer panic on `issued_cert.to_cert().unwrap()` in src/tasigner/signer.rs when the child requested its certificate"),
 ("drop the suspended certificate when a new one is issued for the same key", "C01", "present_but_unlisted",
  "(also C03/C04) unsuspending a child left its certificate in the suspended set as well; a later key activation of the issuer re-suspended it, withdrawing and revoking the certificate of an active child"),
 ("request a new certificate when the parent no longer lists the one we hold", "C01", "rp_rejects",
  "(also C02) after a parent-side shrink and regain before the child's next synchronisation the child kept a certificate the parent had already removed and never requested a new one"),
 ("answer an issuance request for a class that no longer exists with 1201", "C02", "no_convergence",
  "an issuance request for a resource class the parent no longer has failed with an internal error instead of RFC 6492 error 1201, so the child never dropped the class and parent and child did not converge"),
 ("publish manifests and CRLs that a command re-issued because they were due", "C14", "due_not_published",
  "(also C01) a command that re-issued a due manifest/CRL as a side effect (CaObjects::re_issue in the pre-save listener) did not queue a repository synchronisation, so the repository kept serving the stale manifest until another change"),
 ("ASPA update that removes and re-adds a customer", "C05", "aspa_accept_not_visible",
  "an ASPA update that removed a customer and added it again in the same request lost the definition: the add was computed against the stored configuration instead of the working copy"),
 ("re-queue a task that was running at shutdown also when it is the only one", "C09", "running_task_not_requeued",
  "TaskQueue::reschedule_tasks_at_startup skipped the re-queueing when exactly one task was in the running state (`keys.len() > 1`), the task was never run again and schedule_missing saw it as present"),
 ("retry the trust anchor proxy/signer synchronisation when it fails", "C08", "diverged_from_twin",
  "(also C09) a failed write during the local TA proxy/signer exchange was logged and the task was done; the pending child requests (e.g. the revocation sent by delete_ca) were not signed until some child sent another request"),
 ("resume an interrupted trust anchor proxy/signer synchronisation", "C09", "no_quiescence",
  "(also C08/C12) a crash after the TA proxy recorded a signer request and before the signer's response was processed left the request open; every later synchronisation failed with 'proxy already has a request' and the local TA never signed again"),
 ("complete an interrupted or failed write of the repository files", "C09", "rrdp_update_not_done",
  "(also C11) a crash or I/O error while writing the RRDP/rsync files left the served files behind the repository content: the re-queued or rescheduled RRDP task found no staged changes and wrote nothing until the next publication"),
 ("remove a left-over old rsync directory before publishing", "C11", "rsync_write_not_completed",
  "(also C08/C09) a crash between the rsync renames 'new -> current' and the removal of 'old' made every later rsync write fail on renaming current onto the non-empty old directory"),
 ("schedule an RRDP update at start-up", "C09", "rrdp_update_not_done",
  "a crash after a publisher's delta was stored in the content log and before the RRDP update task was queued left the change unserved until some later publication"),
 ("retry revocation requests that could not be delivered", "C08", "diverged_from_twin",
  "(also C09) the resource-class-removed / unexpected-key tasks treated every error (here: an I/O error at the parent; for a remote parent: any transport failure) as 'already revoked' and gave up, so the parent kept publishing the certificate of a key its child had dropped"),
 ("apply the maximum number of RRDP deltas also when the minimum rules kept more", "C11", "delta_count_exceeds_max",
  "RrdpServer::find_deltas_truncate_age compared `keep == max_nr - 1`; once the minimum rules had kept that many deltas or more, the number of deltas was no longer bounded by rrdp_delta_files_max_nr (6 deltas with max_nr = 1)"),
 ("do not finish a child's running parent synchronisation from another thread", "C18", "daemon_exit",
  "a parent-side child update (API thread) ran the post-save listener with schedule_and_finish_existing for the child's SyncParent task while the scheduler thread was executing exactly that task; the scheduler could then not finish/reschedule it ('failed to move running/... to pending/...') and called process::exit"),
 ("refuse a publisher whose directory overlaps with that of another publisher", "C10", "overlapping_publisher_accepted",
  "(also C11) publishers 'a' and 'a/b' (handles may contain '/') have nested base URIs: 'a' could publish at URIs of 'a/b'; the RRDP snapshot then listed the same URI twice, clients could not apply the deltas and the rsync files overwrote each other"),
 ("let the trust anchor signer refuse a request it has already processed", "C15", "request_answered_twice",
  "the TA signer processed a validly signed request again when it was delivered a second time (same nonce) or replayed from an earlier round: child certificates issued twice, manifest and CRL moved on, a second exchange stored - while the proxy accepts one response per request"),
 ("revoke a child's key also when the child knows the resource class under another name", "C03", "revocation_without_effect",
  "process_child_revoke_key looked up the class under the child's name for it before translating it through the child's resource class name mapping; for a child with a mapped class name the revocation request (key roll finished) was answered positively but the certificate of the retired key stayed issued and published"),
 ("answer a trust anchor child's revocation request for an already revoked key with 1302", "C08", "diverged_from_twin",
  "(also C09/C02) crash of a TA child after it received the revocation response and before the finished key roll was stored (cut at the pre-save write of the object set during keyroll_activate): after restart the child sent the revocation again, the TA proxy queued it (the key is still listed, as revoked), the signer refused the whole request with 'revocation for unknown key' on every synchronisation and no request of any TA child was processed any more"),
 ("truncate an existing file when it is written again", "C09", "rrdp_unreadable",
  "(also C11) crash at the rename of the new notification file left the temporary file behind; the next, shorter notification was written over it without truncation, renamed and served: notification.xml was malformed XML (cut at fs rrdp_notification_rename during child_suspend, seed 1000000150)"),
 ("drop a trust anchor response the child no longer waits for", "C09", "parent_sync_not_done",
  "crash while a TA child was being deleted, after its revocation request was queued at the TA proxy: the restarted child asked for a certificate for the same key, the proxy failed every such request with 'Response does not match request type' because of the open revocation response, and the child's parent synchronisation never succeeded again (seed 1000000329, cuts 3/6/9 of delete_ca)"),
 ("do not name a URI twice in an RRDP delta when an object moves between publishers", "C10", "rrdp_client",
  "(also C11) publisher 'a' removed (objects withdrawn) and publisher 'a/b' added and publishing rsync://.../a/b/m.mft before the next RRDP update: the delta held a publish without hash and a withdraw for the same URI, which a client holding the object cannot apply (seed 1000000905)"),
 ("list the objects the repository holds in the status also when a reply was lost", "C19", "published_list_differs",
  "the list of published objects in a CA's repository status was only updated from acknowledged deltas: when the repository applied a delta but the reply was lost (two-instance runs over the faulty network), the next synchronisation found nothing to send, reported success and the status kept the list from before the lost delta; a publisher removed and re-created at the server led to every object being listed twice"),
 ("store a re-scheduled task before removing the entry it replaces", "C09", "pending_rrdp_update_cancelled",
  "(found by the C10 failing-write runs) Queue::schedule_task deleted the pending entry of a task before storing its replacement; when that store failed (injected I/O error at kv store of pending/<ts>-update_rrdp_if_needed while publisher 'bob' sent a delta) the RRDP update already queued for publisher 'Bob's acknowledged delta was gone and the served RRDP snapshot and rsync tree never got that object (profile c10fail, seed 1010000014)"),
 ("do not reserve memory for as many history records as the request asks for", "C16", "panic",
  "GET /api/v1/cas/{ca}/history/commands/{rows} passes the number parsed from the path segment to Vec::with_capacity in AggregateStore::command_history_for_records: rows = 18446744073709551615 panics with 'capacity overflow' (a large value that does not overflow aborts on the failing allocation); found by calling KrillManager::ca_history, the call the route handler makes, with extreme criteria (first pointed out by the sub-agent that wrote the second C16 seeded change)"),

]

log = subprocess.run(["git", "-C", "/repo", "log", "--format=%h %s", "--grep=^fix:"],
                     capture_output=True, text=True).stdout.splitlines()
path = "/verif/known-findings.json"
data = json.load(open(path))
known = [x for x in data if x["status"] == "known"]
fixed = []
seen = set()
for frag, prop, rule, what in FIXES:
    hits = [l for l in log if frag in l]
    assert len(hits) == 1, (frag, hits)
    commit = hits[0].split()[0]
    seen.add(commit)
    fixed.append({
        "status": "fixed", "property": prop, "rule": rule, "detail_contains": "",
        "description": f"fixed: property={prop} {commit} {what}",
        "commit": commit,
    })
missing = [l for l in log if l.split()[0] not in seen]
assert not missing, missing
json.dump(known + fixed, open(path, "w"), indent=1)
print(len(known), "known,", len(fixed), "fixed")
